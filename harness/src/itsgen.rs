//! Generators for the ITS cluster (C04, C05, C11, C18).
#![allow(dead_code)]
use crate::common::*;
use crate::gw::*;
use crate::gwgen::G;
use crate::Run;
use interchain_token_service::types::{DeployInterchainToken, HubMessage, InterchainTransfer, Message};
use soroban_sdk::xdr::ToXdr;
use soroban_sdk::{Bytes, BytesN, Env};

pub struct I<'a> {
    pub g: G<'a>,
    pub its: Addr,
    pub gs: Addr,
    pub owner: Addr,
    pub hub_addr: Vec<u8>,
    pub hub_chain: Vec<u8>,
    pub chain: Vec<u8>,
    pub ws: WS,
    pub users: Vec<Addr>,
    pub gas: Addr,
    pub ctr: u64,
    pub tokens: Vec<Addr>, // every token address seen (for balance sweeps)
}

fn parse_i128(obs: &str) -> i128 {
    obs.split(' ').nth(1).and_then(|t| t.strip_prefix('X')).and_then(|s| s.parse().ok()).unwrap_or(0)
}
fn tok_after_ok(obs: &str, prefix: char) -> Option<String> {
    let t = obs.split(' ').nth(1)?;
    t.strip_prefix(prefix).map(|s| s.to_string())
}

pub fn transfer_payload(env: &Env, origin: &[u8], tid: &[u8; 32], src: &[u8], dest: &[u8], amount: i128, data: Option<Vec<u8>>) -> Vec<u8> {
    let m = HubMessage::ReceiveFromHub {
        source_chain: sstr(env, origin),
        message: Message::InterchainTransfer(InterchainTransfer {
            token_id: BytesN::from_array(env, tid),
            source_address: sbytes(env, src),
            destination_address: sbytes(env, dest),
            amount,
            data: data.map(|d| sbytes(env, &d)),
        }),
    };
    m.abi_encode(env).unwrap().to_alloc_vec()
}
pub fn deploy_payload(env: &Env, origin: &[u8], tid: &[u8; 32], name: &[u8], symbol: &[u8], decimals: u8, minter: Option<Vec<u8>>) -> Vec<u8> {
    let m = HubMessage::ReceiveFromHub {
        source_chain: sstr(env, origin),
        message: Message::DeployInterchainToken(DeployInterchainToken {
            token_id: BytesN::from_array(env, tid),
            name: sstr(env, name),
            symbol: sstr(env, symbol),
            decimals,
            minter: minter.map(|d| sbytes(env, &d)),
        }),
    };
    m.abi_encode(env).unwrap().to_alloc_vec()
}
fn abi_word(n: usize) -> [u8; 32] {
    let mut w = [0u8; 32];
    w[24..].copy_from_slice(&(n as u64).to_be_bytes());
    w
}
fn abi_padded(b: &[u8]) -> Vec<u8> {
    let mut v = b.to_vec();
    while v.len() % 32 != 0 {
        v.push(0);
    }
    v
}
/// the receive-from-hub wrapper, encoded by hand around ARBITRARY inner bytes (the contract's own encoder can only wrap what it
/// itself encodes)
pub fn wrap_raw(origin: &[u8], inner: &[u8]) -> Vec<u8> {
    let mut out = vec![];
    out.extend_from_slice(&abi_word(4));
    out.extend_from_slice(&abi_word(0x60));
    out.extend_from_slice(&abi_word(0x60 + 32 + abi_padded(origin).len()));
    out.extend_from_slice(&abi_word(origin.len()));
    out.extend_from_slice(&abi_padded(origin));
    out.extend_from_slice(&abi_word(inner.len()));
    out.extend_from_slice(&abi_padded(inner));
    out
}
/// the inner message bytes of a wrapped payload
pub fn unwrap_raw(p: &[u8], origin_len: usize) -> Vec<u8> {
    let at = 96 + 32 + ((origin_len + 31) / 32) * 32;
    let len = u64::from_be_bytes(p[at + 24..at + 32].try_into().unwrap()) as usize;
    p[at + 32..at + 32 + len].to_vec()
}
/// payloads whose OUTER encoding is canonical while the wrapped message is not the canonical encoding of anything: extra bytes
/// behind it, a dirty padding byte inside it, a gap between its head and its tails (all offsets moved along)
pub fn noncanonical_inner(origin: &[u8], good: &[u8], transfer: bool) -> Vec<(Vec<u8>, &'static str)> {
    let inner = unwrap_raw(good, origin.len());
    assert_eq!(wrap_raw(origin, &inner), good, "hand-written wrapper disagrees with the contract's encoder");
    let mut out = vec![];
    let mut v = inner.clone();
    v.extend_from_slice(&[0u8; 32]);
    out.push((wrap_raw(origin, &v), "inner-trailing-word"));
    let mut v = inner.clone();
    v.extend_from_slice(&abi_word(1));
    out.push((wrap_raw(origin, &v), "inner-trailing-nonzero-word"));
    let mut v = inner.clone();
    v.push(0);
    out.push((wrap_raw(origin, &v), "inner-trailing-byte"));
    let mut v = inner.clone();
    v.truncate(inner.len() - 32);
    out.push((wrap_raw(origin, &v), "inner-truncated-word"));
    if !transfer {
        // head: type, id, off(name), off(symbol), decimals, off(minter): a decimals word that is no uint8 (0x0112, 2^16 + 18)
        let mut v = inner.clone();
        v[128 + 30] = 1;
        out.push((wrap_raw(origin, &v), "inner-decimals-0x01xx"));
        let mut v = inner.clone();
        v[128 + 29] = 1;
        out.push((wrap_raw(origin, &v), "inner-decimals-0x01xxxx"));
        let mut v = inner.clone();
        v[128] = 0x80;
        out.push((wrap_raw(origin, &v), "inner-decimals-top-bit"));
    }
    if transfer {
        // head: type, id, off(src), off(dest), amount, off(data); tails in that order
        let off = |k: usize| u64::from_be_bytes(inner[32 * k + 24..32 * k + 32].try_into().unwrap()) as usize;
        let (o_src, o_dest, o_data) = (off(2), off(3), off(5));
        let dest_len = u64::from_be_bytes(inner[o_dest + 24..o_dest + 32].try_into().unwrap()) as usize;
        let src_len = u64::from_be_bytes(inner[o_src + 24..o_src + 32].try_into().unwrap()) as usize;
        if dest_len % 32 != 0 {
            let mut v = inner.clone();
            v[o_dest + 32 + abi_padded(&vec![0; dest_len]).len() - 1] = 1;
            out.push((wrap_raw(origin, &v), "inner-dirty-padding-after-recipient"));
        }
        if src_len % 32 != 0 {
            let mut v = inner.clone();
            v[o_src + 32 + src_len] = 0xff;
            out.push((wrap_raw(origin, &v), "inner-dirty-padding-after-sender"));
        }
        // a 32-byte gap between head and tails
        let mut v = inner[..192].to_vec();
        v.extend_from_slice(&[0u8; 32]);
        v.extend_from_slice(&inner[192..]);
        for (k, o) in [(2usize, o_src), (3, o_dest), (5, o_data)] {
            v[32 * k..32 * k + 32].copy_from_slice(&abi_word(o + 32));
        }
        out.push((wrap_raw(origin, &v), "inner-gap-before-tails"));
        // the empty data tail shared with nothing: offsets of sender and recipient exchanged together with their tails is still
        // canonical only in one order — exchange the two OFFSETS only when both fields have equal length (then the decoded
        // message differs; skip otherwise)
    }
    out
}

pub const CHAIN32: &str = "chain-with-a-name-of-32-characte";
pub const CHAIN33: &str = "chain-with-a-name-of-33-character";

pub fn addr_xdr(env: &Env, a: &Addr) -> Vec<u8> {
    a.sdk(env).to_xdr(env).to_alloc_vec()
}

impl<'a> I<'a> {
    pub fn new(run: &'a mut Run, seed: u64) -> Self {
        I {
            g: G::new(run, seed),
            its: Addr::c(190),
            gs: Addr::c(191),
            owner: Addr::c(1),
            hub_addr: b"axelar1hubaddressxyz".to_vec(),
            hub_chain: b"axelar".to_vec(),
            chain: b"stellar".to_vec(),
            ws: WS { signers: vec![], threshold: 1, nonce: [0; 32] },
            users: vec![Addr::c(10), Addr::c(11), Addr::c(12)],
            gas: Addr::c(0),
            ctr: 0,
            tokens: vec![],
        }
    }
    pub fn op(&mut self, s: &str, class: &str) -> String {
        self.g.run.op(s, class)
    }
    /// gateway + ITS + gas token with funded users + two trusted chains
    pub fn setup(&mut self, name: &str) {
        let ws = self.g.mk_set(2, 0, 2);
        self.ws = ws.clone();
        self.g.run.scenario("its", name);
        self.g.domain = keccak(format!("domain-{name}").as_bytes());
        self.g.set_time(1000);
        let gwaddr = self.g.gwaddr.clone();
        let (o, p) = (self.g.owner.clone(), self.g.operator.clone());
        self.op(&format!("gw.new {} {} {} {} 0 1 {}", gwaddr.tok(), o.tok(), p.tok(), hex::encode(self.g.domain), sets_tok(&[ws.clone()])), "construct");
        self.g.sets = vec![ws];
        let obs = self.op(&format!("its.new {} {} {} {} {}", self.its.tok(), self.owner.tok(), self.gs.tok(), hx(&self.hub_addr), hx(&self.chain)), "construct-its");
        if let Some(h) = obs.split(' ').find_map(|t| t.strip_prefix("hub=")) {
            self.hub_chain = unhx(h);
        }
        let o = self.op(&format!("sac.new {}", Addr::c(5).tok()), "env-token");
        self.gas = Addr::parse(o.split(' ').nth(1).unwrap());
        self.tokens = vec![self.gas.clone()];
        for u in self.users.clone() {
            self.op(&format!("sac.mint {} {} 1000", self.gas.tok(), u.tok()), "env-mint");
        }
        // a freshly constructed service trusts NO chain — not the hub, not its own chain name
        let own = self.chain.clone();
        let hub = self.hub_chain.clone();
        for c in [own.as_slice(), hub.as_slice(), b"ethereum".as_slice()] {
            self.op(&format!("its.is_trusted {}", hx(c)), "q-initial-trust");
        }
        // (two of the trusted names sit on the 32-byte boundary of the encoding: 32 and 33 characters)
        for c in ["ethereum", "avalanche", "Avalanche-Fuji", CHAIN32, CHAIN33] {
            self.op(&format!("its.set_trusted {} {}", hx(c.as_bytes()), self.owner.tok()), "set-trusted");
        }
    }
    pub fn approve(&mut self, chain: &[u8], id: &[u8], src: &[u8], contract: &Addr, payload: &[u8], class: &str) -> Msg {
        let m = Msg { chain: chain.to_vec(), id: id.to_vec(), src: src.to_vec(), contract: contract.clone(), ph: keccak(payload) };
        let ws = self.ws.clone();
        let pf = self.g.honest(&ws, &approve_data_hash(&self.g.env, &[m.clone()]));
        self.g.approve(&[m.clone()], &pf, class);
        m
    }
    pub fn execute(&mut self, chain: &[u8], id: &[u8], src: &[u8], payload: &[u8], class: &str) -> String {
        self.op(&format!("its.execute {} {} {} {}", hx(chain), hx(id), hx(src), hx(payload)), class)
    }
    pub fn fresh_id(&mut self) -> Vec<u8> {
        self.ctr += 1;
        format!("0xmsg-{}", self.ctr).into_bytes()
    }
    /// approve (as the hub) and execute a payload; returns the execute observation
    pub fn deliver(&mut self, payload: &[u8], class: &str) -> String {
        let id = self.fresh_id();
        let (hc, ha, its) = (self.hub_chain.clone(), self.hub_addr.clone(), self.its.clone());
        let m = self.approve(&hc, &id, &ha, &its, payload, "approve");
        let o = self.execute(&hc, &id, &ha, payload, class);
        self.g.q_msg(&m);
        o
    }
    pub fn sweep(&mut self, holders: &[Addr]) {
        let toks = self.tokens.clone();
        for t in toks {
            for h in holders {
                self.op(&format!("tok.balance {} {}", t.tok(), h.tok()), "q");
            }
            self.op(&format!("tok.balance {} {}", t.tok(), self.its.tok()), "q");
            self.op(&format!("tok.balance {} {}", t.tok(), self.gs.tok()), "q");
        }
    }
    /// deploy a service token; returns (token id, token address)
    pub fn deploy(&mut self, caller: &Addr, salt: &[u8; 32], name: &[u8], symbol: &[u8], dec: u32, supply: i128, minter: Option<&Addr>, auth: &str, class: &str) -> Option<([u8; 32], Addr)> {
        let o = self.op(
            &format!("its.deploy {} {} {} {} {} {} {} {}", caller.tok(), hex::encode(salt), hx(name), hx(symbol), dec, supply, minter.map(|m| m.tok()).unwrap_or("-".into()), auth),
            class,
        );
        let tid = unhx32(&tok_after_ok(&o, 'x')?);
        let a = self.op(&format!("its.token_address {}", hex::encode(tid)), "q");
        let addr = Addr::parse(a.split(' ').nth(1)?);
        if !self.tokens.contains(&addr) {
            self.tokens.push(addr.clone());
        }
        Some((tid, addr))
    }
    pub fn register(&mut self, token: &Addr, class: &str) -> Option<[u8; 32]> {
        let o = self.op(&format!("its.register_canonical {}", token.tok()), class);
        Some(unhx32(&tok_after_ok(&o, 'x')?))
    }
    pub fn token_probe(&mut self, token: &Addr, people: &[Addr]) {
        self.op(&format!("tok.meta {}", token.tok()), "q");
        self.op(&format!("tok.owner {}", token.tok()), "q");
        self.op(&format!("tok.token_id {}", token.tok()), "q");
        for p in people {
            self.op(&format!("tok.is_minter {} {}", token.tok(), p.tok()), "q");
            self.op(&format!("tok.balance {} {}", token.tok(), p.tok()), "q");
        }
    }
    pub fn new_sac(&mut self, fund: bool) -> Addr {
        let o = self.op(&format!("sac.new {}", Addr::c(5).tok()), "env-token");
        let a = Addr::parse(o.split(' ').nth(1).unwrap());
        self.tokens.push(a.clone());
        self.op(&format!("tok.meta {}", a.tok()), "q");
        if fund {
            for u in self.users.clone() {
                self.op(&format!("sac.mint {} {} 500", a.tok(), u.tok()), "env-mint");
            }
        }
        a
    }
}

// ------------------------------------------------------------------------------------------------
// C04: every single deviation from a conforming delivery
// ------------------------------------------------------------------------------------------------
pub fn gen_c04(run: &mut Run, seed: u64, thorough: bool) {
    let histories = if thorough { 40 } else { 3 };
    let mut i = I::new(run, seed);
    for h in 0..histories {
        i.setup(&format!("c04-{h}"));
        let env = i.g.env.clone();
        let (u0, u1) = (i.users[0].clone(), i.users[1].clone());
        let recv = Addr::c(60);
        i.op(&format!("recv.new {}", recv.tok()), "env-recipient-app");
        // a service token (ITS stays minter) and a canonical token with some custody
        let (tid_n, tok_n) = i.deploy(&u0, &[1; 32], b"Native", b"NAT", 6, 100, None, &u0.tok(), "setup-deploy").unwrap();
        let canon = i.new_sac(true);
        let tid_c = i.register(&canon, "setup-register").unwrap();
        i.op(
            &format!("its.transfer {} {} {} {} 200 ~ {} 5 {}", u0.tok(), hex::encode(tid_c), hx(b"ethereum"), hx(b"0xdest"), i.gas.tok(), u0.tok()),
            "setup-lock",
        );
        let holders = vec![u0.clone(), u1.clone(), recv.clone()];
        i.sweep(&holders);
        let (hc, ha, its) = (i.hub_chain.clone(), i.hub_addr.clone(), i.its.clone());
        let rounds = if thorough { 3 } else { 2 };
        for r in 0..rounds {
            let tid = if r % 2 == 0 { tid_n } else { tid_c };
            let which = if r % 2 == 0 { "native" } else { "canonical" };
            let dest = addr_xdr(&env, &u1);
            let good = transfer_payload(&env, b"ethereum", &tid, b"0xsrc", &dest, 7, None);
            // conforming
            i.deliver(&good, &format!("conforming-transfer-{which}"));
            i.sweep(&holders);
            // conforming with data to the recipient application / to a plain address
            let with_data = transfer_payload(&env, b"ethereum", &tid, b"0xsrc", &addr_xdr(&env, &recv), 3, Some(b"hello".to_vec()));
            i.deliver(&with_data, &format!("conforming-transfer-data-{which}"));
            i.op(&format!("recv.count {}", recv.tok()), "q");
            let with_data_plain = transfer_payload(&env, b"ethereum", &tid, b"0xsrc", &dest, 3, Some(b"hello".to_vec()));
            i.deliver(&with_data_plain, &format!("data-to-non-executable-{which}"));
            i.sweep(&holders);
            // conforming deploy
            let mut new_tid = [0u8; 32];
            new_tid[0] = 0xd0 + r as u8;
            new_tid[1] = h as u8;
            let dep = deploy_payload(&env, b"avalanche", &new_tid, b"Remote", b"RMT", 9, Some(addr_xdr(&env, &u1)));
            i.deliver(&dep, "conforming-deploy");
            i.op(&format!("its.token_address {}", hex::encode(new_tid)), "q");
            i.op(&format!("its.manager {}", hex::encode(new_tid)), "q");
            // ---- single deviations (fresh message id each)
            // never approved
            let id = i.fresh_id();
            i.execute(&hc, &id, &ha, &good, "never-approved");
            // approved with other payload / id / source address / destination contract
            let id = i.fresh_id();
            let other = transfer_payload(&env, b"ethereum", &tid, b"0xsrc", &dest, 8, None);
            let m = i.approve(&hc, &id, &ha, &its, &other, "approve");
            i.execute(&hc, &id, &ha, &good, "approved-other-payload");
            i.g.q_msg(&m);
            let id = i.fresh_id();
            let id2 = i.fresh_id();
            let m = i.approve(&hc, &id, &ha, &its, &good, "approve");
            i.execute(&hc, &id2, &ha, &good, "approved-other-id");
            i.g.q_msg(&m);
            let id = i.fresh_id();
            let m = i.approve(&hc, &id, b"some-other-source", &its, &good, "approve");
            i.execute(&hc, &id, &ha, &good, "approved-other-source-address");
            i.g.q_msg(&m);
            let id = i.fresh_id();
            let m = i.approve(&hc, &id, &ha, &Addr::c(77), &good, "approve");
            i.execute(&hc, &id, &ha, &good, "approved-other-destination");
            i.g.q_msg(&m);
            // already executed
            let id = i.fresh_id();
            let m = i.approve(&hc, &id, &ha, &its, &good, "approve");
            i.execute(&hc, &id, &ha, &good, "first-delivery");
            i.execute(&hc, &id, &ha, &good, "already-executed");
            i.g.q_msg(&m);
            // … not even after the very same (still validly signed) approval is relayed again
            let m2 = i.approve(&hc, &id, &ha, &its, &good, "re-approve-executed");
            i.execute(&hc, &id, &ha, &good, "re-approved-after-execution");
            i.g.q_msg(&m2);
            // … nor after an approval of OTHER content for the same id
            let other2 = transfer_payload(&env, b"ethereum", &tid, b"0xsrc", &dest, 9, None);
            let m3 = i.approve(&hc, &id, &ha, &its, &other2, "re-approve-executed-other-content");
            i.execute(&hc, &id, &ha, &other2, "re-approved-other-content-after-execution");
            i.g.q_msg(&m3);
            i.sweep(&holders);
            // a PENDING approval is not replaced by a later approval of other content for the same id: the later content is never
            // delivered, the first one exactly once
            {
                let id = i.fresh_id();
                let first = transfer_payload(&env, b"ethereum", &tid, b"0xsrc", &dest, 4, None);
                let second = transfer_payload(&env, b"ethereum", &tid, b"0xsrc", &dest, 40, None);
                let m1 = i.approve(&hc, &id, &ha, &its, &first, "approve-pending-first-content");
                let m2 = i.approve(&hc, &id, &ha, &its, &second, "approve-pending-second-content");
                i.execute(&hc, &id, &ha, &second, "deliver-second-content-while-first-pending");
                i.execute(&hc, &id, &ha, &first, "deliver-first-content");
                i.execute(&hc, &id, &ha, &second, "deliver-second-content-after-first");
                i.g.q_msg(&m1);
                i.g.q_msg(&m2);
                i.sweep(&holders);
            }
            // data for a recipient that is an ACCOUNT address (no code there to hand the data to): the delivery fails as a whole
            {
                let acct = Addr { contract: false, id: [9u8; 32] };
                let zero = Addr { contract: false, id: [0u8; 32] };
                for (a, nm) in [(&acct, "account"), (&zero, "zero-account")] {
                    let p = transfer_payload(&env, b"ethereum", &tid, b"0xsrc", &addr_xdr(&env, a), 3, Some(b"hello".to_vec()));
                    i.deliver(&p, &format!("data-to-{nm}-{which}"));
                    // (an asset contract knows accounts only through trustlines, which the harness does not set up: balances of
                    // account addresses are read for the service's own token only)
                    if which == "native" {
                        i.op(&format!("tok.balance {} {}", tok_n.tok(), a.tok()), "q");
                    }
                }
                i.sweep(&holders);
            }
            // source chain not the hub (consistently approved that way)
            let id = i.fresh_id();
            let m = i.approve(b"ethereum", &id, &ha, &its, &good, "approve");
            i.execute(b"ethereum", &id, &ha, &good, "source-chain-not-hub");
            i.g.q_msg(&m);
            // source address not the hub address (consistently approved that way)
            let id = i.fresh_id();
            let m = i.approve(&hc, &id, b"NOT-the-hub-address", &its, &good, "approve");
            i.execute(&hc, &id, b"NOT-the-hub-address", &good, "source-address-not-hub");
            i.g.q_msg(&m);
            i.sweep(&holders);
            // outer type not receive-from-hub
            let send = HubMessage::SendToHub {
                destination_chain: sstr(&env, b"ethereum"),
                message: Message::InterchainTransfer(InterchainTransfer {
                    token_id: BytesN::from_array(&env, &tid),
                    source_address: sbytes(&env, b"0xsrc"),
                    destination_address: sbytes(&env, &dest),
                    amount: 7,
                    data: None,
                }),
            }
            .abi_encode(&env)
            .unwrap()
            .to_alloc_vec();
            i.deliver(&send, "outer-type-send-to-hub");
            // the bare inner message (type 0) as payload
            let mut bare = good[..].to_vec();
            bare = bare[bare.len() - 0..].to_vec();
            let _ = bare;
            let inner_only = Message::InterchainTransfer(InterchainTransfer {
                token_id: BytesN::from_array(&env, &tid),
                source_address: sbytes(&env, b"0xsrc"),
                destination_address: sbytes(&env, &dest),
                amount: 7,
                data: None,
            })
            .abi_encode(&env)
            .unwrap()
            .to_alloc_vec();
            i.deliver(&inner_only, "outer-type-inner-message");
            // unsupported inner type: patch the inner message's type word to 2 (DeployTokenManager) / 5
            for (ty, nm) in [(2u8, "inner-type-2"), (5, "inner-type-5"), (4, "inner-type-4")] {
                let mut p = good.clone();
                // inner message starts after: 3 head words + chain tail (len word + padded) + inner length word
                let chain_len = b"ethereum".len();
                let inner_start = 96 + 32 + ((chain_len + 31) / 32) * 32 + 32;
                p[inner_start + 31] = ty;
                i.deliver(&p, nm);
            }
            // type words whose LOW byte is a supported type but whose upper bytes are not zero (outer 2^248+4, 260; inner 2^255+0,
            // 256+0): not the canonical encoding of any supported message
            for (outer, idx, val, nm) in [(true, 0usize, 1u8, "outer-type-2^248+4"), (true, 30, 1, "outer-type-260"), (false, 0, 0x80, "inner-type-2^255"), (false, 30, 1, "inner-type-256")] {
                let mut p = good.clone();
                let chain_len = b"ethereum".len();
                let inner_start = 96 + 32 + ((chain_len + 31) / 32) * 32 + 32;
                let base = if outer { 0 } else { inner_start };
                p[base + idx] |= val;
                i.deliver(&p, nm);
            }
            // origin chain untrusted / un-trusted again
            let untrusted = transfer_payload(&env, b"polygon", &tid, b"0xsrc", &dest, 7, None);
            i.deliver(&untrusted, "origin-never-trusted");
            // the hub's own chain name, and this chain's own name, as ORIGIN: names like any other — not trusted unless set
            let hubname = i.hub_chain.clone();
            let p = transfer_payload(&env, &hubname, &tid, b"0xsrc", &dest, 7, None);
            i.deliver(&p, "origin-is-hub-chain-name");
            let own = i.chain.clone();
            let p = transfer_payload(&env, &own, &tid, b"0xsrc", &dest, 7, None);
            i.deliver(&p, "origin-is-own-chain-name");
            // names that only LOOK like the trusted "ethereum": NUL / blank padded, a prefix, an extension, another case
            for (o, nm) in [(&b"ethereum\0"[..], "nul-padded"), (b"ethereum\0\0\0", "nul-padded-3"), (b"\0ethereum", "nul-prefixed"), (b"ethereum ", "blank-padded"), (b" ethereum", "blank-prefixed"), (b"ethereu", "prefix"), (b"ethereumm", "extension"), (b"Ethereum", "capitalised"), (b"ETHEREUM", "upper-case"), (b"ethereum\n", "newline-padded")] {
                let p = transfer_payload(&env, o, &tid, b"0xsrc", &dest, 7, None);
                i.deliver(&p, &format!("origin-lookalike-{nm}"));
            }
            i.sweep(&holders);
            i.op(&format!("its.remove_trusted {} {}", hx(b"avalanche"), i.owner.tok()), "remove-trusted");
            let removed = transfer_payload(&env, b"avalanche", &tid, b"0xsrc", &dest, 7, None);
            i.deliver(&removed, "origin-untrusted-again");
            i.op(&format!("its.set_trusted {} {}", hx(b"avalanche"), i.owner.tok()), "set-trusted");
            i.deliver(&removed, "origin-trusted-again");
            // unknown token
            let unknown = transfer_payload(&env, b"ethereum", &[0xee; 32], b"0xsrc", &dest, 7, None);
            i.deliver(&unknown, "unknown-token");
            // undecodable recipient: garbage / valid XDR of a non-address / truncated / padded address
            for (bytes, nm) in [
                (b"not-an-address".to_vec(), "recipient-garbage"),
                (soroban_sdk::Bytes::from_slice(&env, b"x").to_xdr(&env).to_alloc_vec(), "recipient-xdr-non-address"),
                (dest[..dest.len() - 1].to_vec(), "recipient-truncated"),
                ([dest.clone(), vec![0, 0, 0, 0]].concat(), "recipient-padded"),
                (vec![], "recipient-empty"),
            ] {
                let p = transfer_payload(&env, b"ethereum", &tid, b"0xsrc", &bytes, 7, None);
                i.deliver(&p, nm);
            }
            // undecodable minter in a deploy
            for (bytes, nm) in [
                (b"zz".to_vec(), "minter-garbage"),
                (5u32.to_xdr(&env).to_alloc_vec(), "minter-xdr-non-address"),
            ] {
                let mut t2 = [0x33u8; 32];
                t2[0] = r as u8;
                t2[1] = h as u8;
                t2[2] = bytes.len() as u8;
                let p = deploy_payload(&env, b"ethereum", &t2, b"N", b"S", 7, Some(bytes));
                i.deliver(&p, nm);
                i.op(&format!("its.token_address {}", hex::encode(t2)), "q");
            }
            // deploy onto a taken id (native and canonical), invalid metadata
            let p = deploy_payload(&env, b"ethereum", &tid_n, b"N", b"S", 7, None);
            i.deliver(&p, "deploy-taken-native-id");
            let p = deploy_payload(&env, b"ethereum", &tid_c, b"N", b"S", 7, None);
            i.deliver(&p, "deploy-taken-canonical-id");
            i.op(&format!("its.token_address {}", hex::encode(tid_c)), "q");
            i.op(&format!("its.manager {}", hex::encode(tid_c)), "q");
            let p = deploy_payload(&env, b"ethereum", &[0x44; 32], b"", b"S", 7, None);
            i.deliver(&p, "deploy-empty-name");
            let p = deploy_payload(&env, b"ethereum", &[0x45; 32], b"N", b"", 7, None);
            i.deliver(&p, "deploy-empty-symbol");
            // amount >= 2^127: patch the amount word of a valid payload
            {
                let mut p = good.clone();
                let chain_len = b"ethereum".len();
                let inner_start = 96 + 32 + ((chain_len + 31) / 32) * 32 + 32;
                p[inner_start + 128 + 16] |= 0x80;
                i.deliver(&p, "amount-2^127");
                let mut p = good.clone();
                p[inner_start + 128 + 15] |= 0x01;
                i.deliver(&p, "amount-2^128");
            }
            // truncated / padded payload (approved exactly as delivered)
            let mut p = good.clone();
            p.truncate(p.len() - 1);
            i.deliver(&p, "payload-truncated");
            let mut p = good.clone();
            p.truncate(p.len() - 32);
            i.deliver(&p, "payload-truncated-word");
            let mut p = good.clone();
            p.push(0);
            i.deliver(&p, "payload-padded-byte");
            let mut p = good.clone();
            p.extend_from_slice(&[0u8; 32]);
            i.deliver(&p, "payload-padded-word");
            i.deliver(&[0u8; 16], "payload-16-bytes");
            // canonical wrapper around a NON-canonical message (transfer and deploy)
            for (p, nm) in noncanonical_inner(b"ethereum", &good, true) {
                i.deliver(&p, &format!("{nm}-{which}"));
            }
            {
                let mut t3 = [0x55u8; 32];
                t3[0] = r as u8;
                t3[1] = h as u8;
                let dep = deploy_payload(&env, b"ethereum", &t3, b"Odd", b"ODD", 7, None);
                for (p, nm) in noncanonical_inner(b"ethereum", &dep, false) {
                    i.deliver(&p, &format!("deploy-{nm}"));
                    i.op(&format!("its.token_address {}", hex::encode(t3)), "q");
                }
            }
            i.sweep(&holders);
            // insufficient custody / overflow
            if which == "canonical" {
                let p = transfer_payload(&env, b"ethereum", &tid, b"0xsrc", &dest, 100000, None);
                i.deliver(&p, "custody-insufficient");
            } else {
                let p = transfer_payload(&env, b"ethereum", &tid, b"0xsrc", &dest, i128::MAX, None);
                i.deliver(&p, "mint-overflow");
            }
            let p = transfer_payload(&env, b"ethereum", &tid, b"0xsrc", &dest, 0, None);
            i.deliver(&p, "amount-zero");
            i.sweep(&holders);
            let _ = tok_n.clone();
        }
    }
}

// ------------------------------------------------------------------------------------------------
// C05: conservation over histories
// ------------------------------------------------------------------------------------------------
pub fn gen_c05(run: &mut Run, seed: u64, thorough: bool) {
    let histories = if thorough { 120 } else { 10 };
    let len = if thorough { 28 } else { 24 };
    let mut i = I::new(run, seed);
    for h in 0..histories {
        i.setup(&format!("c05-{h}"));
        let env = i.g.env.clone();
        let users = i.users.clone();
        let recv = Addr::c(60);
        i.op(&format!("recv.new {}", recv.tok()), "env-recipient-app");
        // tokens: two native (one with a third-party minter via supply 0), two canonical SACs, one native also registered as canonical
        let mut ids: Vec<([u8; 32], &'static str)> = vec![];
        let (t1, a1) = i.deploy(&users[0], &[1; 32], b"One", b"ONE", 6, 500, None, &users[0].tok(), "setup-deploy").unwrap();
        ids.push((t1, "native"));
        let minter = users[2].clone();
        let (t2, a2) = i.deploy(&users[1], &[2; 32], b"Two", b"TWO", 0, 0, Some(&minter), &users[1].tok(), "setup-deploy-minter").unwrap();
        ids.push((t2, "native"));
        i.op(&format!("tok.mint_from {} {} {} 300 {}", a2.tok(), minter.tok(), users[1].tok(), minter.tok()), "minter-own-mint");
        let c1 = i.new_sac(true);
        let tc1 = i.register(&c1, "setup-register").unwrap();
        ids.push((tc1, "canonical"));
        let c2 = i.new_sac(true);
        let tc2 = i.register(&c2, "setup-register").unwrap();
        ids.push((tc2, "canonical"));
        let tc3 = i.register(&a1, "setup-register-native-as-canonical").unwrap();
        ids.push((tc3, "canonical-of-native"));
        let mut holders = users.clone();
        holders.push(recv.clone());
        i.sweep(&holders);
        for _ in 0..len {
            let (tid, kind) = *i.g.rng.pick(&ids);
            let user = i.g.rng.pick(&users).clone();
            let taddr = match i.op(&format!("its.token_address {}", hex::encode(tid)), "q").split(' ').nth(1) {
                Some(a) => Addr::parse(a),
                None => continue,
            };
            let mut user = user;
            let mut bal = parse_i128(&i.op(&format!("tok.balance {} {}", taddr.tok(), user.tok()), "q"));
            if bal == 0 {
                // prefer a holder, so that most operations are valid
                for u in users.iter() {
                    let b = parse_i128(&i.op(&format!("tok.balance {} {}", taddr.tok(), u.tok()), "q"));
                    if b > 0 {
                        user = u.clone();
                        bal = b;
                        break;
                    }
                }
            }
            let custody = parse_i128(&i.op(&format!("tok.balance {} {}", taddr.tok(), i.its.tok()), "q"));
            match i.g.rng.below(13) {
                12 => {
                    // a hub deploy message naming an id that is already taken (native or canonical, possibly with funds in
                    // custody): must be refused, and later inbound transfers must keep using the registered token
                    let p = deploy_payload(&env, b"ethereum", &tid, b"Squat", b"SQ", 6, None);
                    i.deliver(&p, &format!("inbound-deploy-onto-taken-{kind}-id"));
                    i.op(&format!("its.token_address {}", hex::encode(tid)), "q");
                }
                0..=4 => {
                    // outbound: mostly valid, at most ONE deviation (amount / destination / gas / authorisation)
                    let dev = i.g.rng.below(10);
                    let (amt, ac) = if dev == 0 {
                        match i.g.rng.below(4) {
                            0 => (0, "amt0"),
                            1 => (-1, "amt-neg"),
                            2 => (bal + 1, "amt-bal+1"),
                            _ => (i128::MAX, "amt-max"),
                        }
                    } else if i.g.rng.chance(1, 4) && bal > 0 {
                        (bal, "amt-bal")
                    } else if i.g.rng.chance(1, 6) && bal > 0 {
                        (1, "amt1")
                    } else {
                        ((i.g.rng.range(1, 60) as i128).min(bal.max(1)), "amt-small")
                    };
                    let (dest, dc) = if dev == 1 {
                        match i.g.rng.below(3) {
                            0 => if i.g.rng.chance(1, 2) { (b"polygon".to_vec(), "dest-untrusted") } else { (i.chain.clone(), "dest-own-chain") },
                            1 => (i.hub_chain.clone(), "dest-hub-itself"),
                            _ => (b"avalanche".to_vec(), "dest-avalanche"),
                        }
                    } else if i.g.rng.chance(1, 8) {
                        if i.g.rng.chance(1, 2) { (CHAIN32.as_bytes().to_vec(), "dest-trusted-32-chars") } else { (CHAIN33.as_bytes().to_vec(), "dest-trusted-33-chars") }
                    } else if i.g.rng.chance(1, 4) {
                        // a trusted chain whose name is not all lower case (the announcement must carry it unchanged)
                        (b"Avalanche-Fuji".to_vec(), "dest-trusted-mixed-case")
                    } else {
                        (b"ethereum".to_vec(), "dest-trusted")
                    };
                    let (gasamt, gc) = if dev == 2 {
                        match i.g.rng.below(3) {
                            0 => (0, "gas0"),
                            1 => (-1, "gas-neg"),
                            _ => (100000, "gas-unaffordable"),
                        }
                    } else {
                        if i.g.rng.chance(1, 5) { (1, "gas1") } else { (i.g.rng.range(1, 9) as i128, "gas-ok") }
                    };
                    let (auth, aucl) = if dev == 3 {
                        match i.g.rng.below(5) {
                            0 => ("-".to_string(), "nobody"),
                            1 => (Addr::c(99).tok(), "stranger"),
                            2 => (format!("{}~", user.tok()), "root-only"),
                            3 => (format!("{}!", user.tok()), "other-args"),
                            _ => (i.owner.tok(), "its-owner"),
                        }
                    } else {
                        if i.g.rng.chance(1, 6) { ("*".to_string(), "everyone") } else { (user.tok(), "right") }
                    };
                    let data = if i.g.rng.chance(1, 3) { hx(&i.g.rng.bytes(5)) } else { "~".to_string() };
                    let id_tok = if dev == 4 { hex::encode([0xeeu8; 32]) } else { hex::encode(tid) };
                    let unk = if id_tok.starts_with("eeee") { "-unknown-token" } else { "" };
                    i.op(
                        &format!("its.transfer {} {} {} {} {} {} {} {} {}", user.tok(), id_tok, hx(&dest), hx(b"0xRecipient"), amt, data, i.gas.tok(), gasamt, auth),
                        &format!("outbound-{kind}{unk}-{ac}-{dc}-{gc}-{aucl}"),
                    );
                }
                5..=8 => {
                    // inbound (approved)
                    let (amt, ac) = match i.g.rng.below(7) {
                        0 => (0, "amt0"),
                        1 => (custody, "amt-custody"),
                        2 => (custody + 1, "amt-custody+1"),
                        3 => (1, "amt1"),
                        _ => (i.g.rng.range(1, 40) as i128, "amt-small"),
                    };
                    let with_data = i.g.rng.chance(1, 3);
                    // now and then the recipient is the SERVICE's own address (mint to it / release to itself)
                    let to = if with_data && i.g.rng.chance(2, 3) { recv.clone() } else if i.g.rng.chance(1, 8) { i.its.clone() } else { i.g.rng.pick(&users).clone() };
                    let data = if with_data { Some(i.g.rng.bytes(4)) } else { None };
                    let hubname = i.hub_chain.clone();
                    let origin: &[u8] = match i.g.rng.below(16) { 0 => b"polygon", 1 => &hubname, 2 => b"Avalanche-Fuji", 3 => CHAIN32.as_bytes(), 4 => CHAIN33.as_bytes(), _ => b"ethereum" };
                    let mut p = transfer_payload(&env, origin, &tid, b"0xRemoteSender", &addr_xdr(&env, &to), amt, data);
                    let dcl = if with_data { if to == recv { "-data-app" } else { "-data-plain" } } else { "" };
                    let ocl = if origin == b"polygon" { "-untrusted-origin" } else if origin == &hubname[..] { "-origin-hub-name" } else if origin == b"Avalanche-Fuji" { "-origin-mixed-case" } else if origin.len() >= 32 { "-origin-32-33-chars" } else { "" };
                    // an announced amount that does not fit: one high bit of the uint256 amount word set (bits 127, 128, 135,
                    // 136, 200, 255) on an otherwise valid payload — must be refused, never credited modulo anything
                    let mut big = "";
                    if i.g.rng.chance(1, 6) {
                        let inner_start = 96 + 32 + ((origin.len() + 31) / 32) * 32 + 32;
                        let w = inner_start + 128; // the amount word (big-endian)
                        let (idx, mask, nm) = *i.g.rng.pick(&[(16usize, 0x80u8, "-amount-bit127"), (15, 0x01, "-amount-bit128"), (15, 0x80, "-amount-bit135"), (14, 0x01, "-amount-bit136"), (6, 0x01, "-amount-bit200"), (0, 0x80, "-amount-bit255")]);
                        p[w + idx] |= mask;
                        big = nm;
                    }
                    i.deliver(&p, &format!("inbound-{kind}-{ac}{dcl}{ocl}{big}"));
                }
                9 => {
                    // trusted-chain change
                    if i.g.rng.chance(1, 2) {
                        i.op(&format!("its.remove_trusted {} {}", hx(b"avalanche"), i.owner.tok()), "remove-trusted");
                    } else {
                        i.op(&format!("its.set_trusted {} {}", hx(b"avalanche"), i.owner.tok()), "set-trusted");
                    }
                }
                10 => {
                    // plain user-to-user transfer of the token itself
                    let to = i.g.rng.pick(&users).clone();
                    let amt = i.g.rng.below(20);
                    i.op(&format!("tok.transfer {} {} {} {} {}", taddr.tok(), user.tok(), to.tok(), amt, user.tok()), "env-user-transfer");
                }
                _ => {
                    // the designated minter's own mint
                    let amt = i.g.rng.range(1, 30);
                    i.op(&format!("tok.mint_from {} {} {} {} {}", a2.tok(), minter.tok(), user.tok(), amt, minter.tok()), "minter-own-mint");
                }
            }
            i.sweep(&holders);
        }
        // directed: otherwise faultless inbound transfers whose ORIGIN is a chain that was never trusted — a foreign name, the
        // hub's own chain name, this chain's own name — for a token of each kind (nothing may be credited)
        {
            let hubname = i.hub_chain.clone();
            let own = i.chain.clone();
            for (tid, kind) in [(ids[0].0, ids[0].1), (ids[2].0, ids[2].1)] {
                for (origin, nm) in [(b"polygon".to_vec(), "foreign"), (hubname.clone(), "hub-name"), (own.clone(), "own-name")] {
                    let p = transfer_payload(&env, &origin, &tid, b"0xRemoteSender", &addr_xdr(&env, &users[0]), 1, None);
                    i.deliver(&p, &format!("inbound-{kind}-directed-untrusted-origin-{nm}"));
                }
                i.sweep(&holders);
            }
        }
        // directed: data for an ACCOUNT-type recipient (nothing there can take the data): nothing is credited (service-deployed tokens
        // only: an asset contract knows accounts through trustlines, which the harness does not set up)
        for (tid, kind) in [(ids[0].0, ids[0].1), (ids[1].0, ids[1].1)] {
            for a in [Addr { contract: false, id: [9u8; 32] }, Addr { contract: false, id: [0u8; 32] }] {
                let p = transfer_payload(&env, b"ethereum", &tid, b"0xRemoteSender", &addr_xdr(&env, &a), 3, Some(b"hi".to_vec()));
                i.deliver(&p, &format!("inbound-{kind}-directed-data-to-account"));
                let p = transfer_payload(&env, b"ethereum", &tid, b"0xRemoteSender", &addr_xdr(&env, &a), 3, None);
                i.deliver(&p, &format!("inbound-{kind}-directed-no-data-to-account"));
            }
            i.sweep(&holders);
        }
        // directed: the service itself as recipient of an inbound transfer, for every token (native, canonical, native registered
        // as canonical): what it holds afterwards is what the equations say, and can be released again
        for (tid, kind) in ids.clone() {
            let me = i.its.clone();
            let p = transfer_payload(&env, b"ethereum", &tid, b"0xRemoteSender", &addr_xdr(&env, &me), 5, None);
            i.deliver(&p, &format!("inbound-{kind}-directed-recipient-is-service"));
            i.sweep(&holders);
            let p = transfer_payload(&env, b"ethereum", &tid, b"0xRemoteSender", &addr_xdr(&env, &users[0]), 5, None);
            i.deliver(&p, &format!("inbound-{kind}-directed-after-recipient-is-service"));
            i.sweep(&holders);
        }
        // directed: a canonical wrapper around a transfer message that is not canonically encoded, for a token of each kind
        for (tid, kind) in [(ids[0].0, ids[0].1), (ids[2].0, ids[2].1)] {
            let good = transfer_payload(&env, b"ethereum", &tid, b"0xRemoteSender", &addr_xdr(&env, &users[0]), 2, None);
            for (p, nm) in noncanonical_inner(b"ethereum", &good, true) {
                i.deliver(&p, &format!("inbound-{kind}-directed-{nm}"));
            }
            i.sweep(&holders);
        }
        // directed: announced amounts that do not fit (one high bit of the uint256 amount word set), for a token of each kind
        for (tid, kind) in [(ids[0].0, ids[0].1), (ids[2].0, ids[2].1)] {
            for (idx, mask, nm) in [(16usize, 0x80u8, "bit127"), (15, 0x01, "bit128"), (15, 0x80, "bit135"), (14, 0x01, "bit136")] {
                let mut p = transfer_payload(&env, b"ethereum", &tid, b"0xRemoteSender", &addr_xdr(&env, &users[0]), 3, None);
                let inner_start = 96 + 32 + ((b"ethereum".len() + 31) / 32) * 32 + 32;
                p[inner_start + 128 + idx] |= mask;
                i.deliver(&p, &format!("inbound-{kind}-directed-amount-{nm}"));
            }
            i.sweep(&holders);
        }
    }
}

// ------------------------------------------------------------------------------------------------
// C11: ids, write-once registry, roles of deployed tokens
// ------------------------------------------------------------------------------------------------
pub fn gen_c11(run: &mut Run, seed: u64, thorough: bool) {
    let rounds = if thorough { 12 } else { 1 };
    let mut i = I::new(run, seed);
    // the token contract built from the CURRENT source (the service itself deploys the checked-in blob) reports the id it was
    // constructed with — at once and many ledgers later
    for (k, tid) in [[0u8; 32], [0xabu8; 32], { let mut t = [0u8; 32]; t[31] = 1; t }].iter().enumerate() {
        let maxlive: u32 = new_env().storage().max_ttl();
        i.g.run.scenario("tk", &format!("c11-native-token-id-{k}"));
        i.g.run.op("time 1000 100", "time");
        i.g.run.op(&format!("tk.new {} {} - {} {} {} 7 {maxlive}", Addr::c(200).tok(), Addr::c(1).tok(), hex::encode(tid), hx(b"T"), hx(b"T")), "construct");
        i.g.run.op("tk.token_id", "q-token-id");
        i.g.run.op("time 1000 900", "time");
        i.g.run.op("tk.token_id", "q-token-id-later");
    }
    for r in 0..rounds {
        let chain_variants: Vec<Vec<u8>> = vec![b"stellar".to_vec(), b"stellar-2".to_vec()];
        for (cv, chain) in chain_variants.iter().enumerate() {
            i.chain = chain.clone();
            i.setup(&format!("c11-{r}-{cv}"));
            let env = i.g.env.clone();
            let users = i.users.clone();
            let its = i.its.clone();
            let stranger = Addr::c(99);
            // id functions against the model's independent derivation
            for d in [&users[0], &users[1], &its, &Addr::a(7)] {
                for s in [[0u8; 32], [1u8; 32], [0xffu8; 32]] {
                    i.op(&format!("its.q_deploy_salt {} {}", d.tok(), hex::encode(s)), "q-id");
                    i.op(&format!("its.q_token_id {} {}", d.tok(), hex::encode(s)), "q-id");
                }
                i.op(&format!("its.q_canonical_salt {}", d.tok()), "q-id");
            }
            // deployments: deployers x salts x supply x minter
            let mut n = 0u8;
            let supplies: Vec<i128> = vec![-5, 0, 1, 7];
            let mut deployed: Vec<([u8; 32], Addr)> = vec![];
            for (di, deployer) in users.iter().take(2).enumerate() {
                for supply in &supplies {
                    for mk in 0..4 {
                        if !thorough && (di + mk + (*supply as usize & 1)) % 2 == 1 && *supply != 7 && *supply != 1 {
                            continue;
                        }
                        n += 1;
                        let mut salt = [0u8; 32];
                        salt[0] = n;
                        salt[1] = r as u8;
                        let minter: Option<Addr> = match mk {
                            0 => None,
                            1 => Some(users[2].clone()),
                            2 => Some(deployer.clone()),
                            _ => Some(its.clone()),
                        };
                        let mname = ["none", "third-party", "deployer", "service"][mk];
                        let name = format!("Tok{n}").into_bytes();
                        let res = i.deploy(deployer, &salt, &name, b"TK", (n % 19) as u32, *supply, minter.as_ref(), &deployer.tok(), &format!("deploy-supply{supply}-minter-{mname}"));
                        if let Some((tid, addr)) = res {
                            deployed.push((tid, addr.clone()));
                            i.op(&format!("its.manager {}", hex::encode(tid)), "q");
                            let mut people = vec![its.clone(), deployer.clone(), users[2].clone(), stranger.clone()];
                            people.dedup();
                            i.token_probe(&addr, &people);
                            // an approved inbound transfer to the new token must be honoured
                            let p = transfer_payload(&env, b"ethereum", &tid, b"0xsrc", &addr_xdr(&env, &users[1]), 9, None);
                            i.deliver(&p, &format!("inbound-after-deploy-supply{supply}-minter-{mname}"));
                            i.op(&format!("tok.balance {} {}", addr.tok(), users[1].tok()), "q");
                            // the designated minter can mint, others cannot
                            // (never mock an authorisation for the service's own address: the test host would replace the contract)
                            if let Some(m) = minter.as_ref().filter(|m| **m != its) {
                                i.op(&format!("tok.mint_from {} {} {} 4 {}", addr.tok(), m.tok(), users[0].tok(), m.tok()), "designated-minter-mints");
                            }
                            i.op(&format!("tok.mint_from {} {} {} 4 {}", addr.tok(), stranger.tok(), users[0].tok(), stranger.tok()), "stranger-mints");
                            i.op(&format!("tok.mint_from {} {} {} 4 {}", addr.tok(), deployer.tok(), users[0].tok(), deployer.tok()), "deployer-mints");
                            // re-deploying the same (deployer, salt) must fail and change nothing
                            i.deploy(deployer, &salt, b"Again", b"AG", 1, 0, None, &deployer.tok(), "redeploy-same-deployer-salt");
                            i.op(&format!("its.token_address {}", hex::encode(tid)), "q");
                            i.op(&format!("tok.meta {}", addr.tok()), "q");
                            // the same salt under another deployer is a different token
                            if mk == 0 {
                                let other = if di == 0 { users[1].clone() } else { users[0].clone() };
                                i.deploy(&other, &salt, b"OtherDeployer", b"OD", 2, 0, None, &other.tok(), "same-salt-other-deployer");
                            }
                        }
                    }
                }
            }
            // invalid deployments
            i.deploy(&users[0], &[0x70; 32], b"", b"S", 7, 0, None, &users[0].tok(), "deploy-empty-name");
            i.deploy(&users[0], &[0x71; 32], b"N", b"", 7, 0, None, &users[0].tok(), "deploy-empty-symbol");
            i.deploy(&users[0], &[0x72; 32], b"N", b"S", 256, 0, None, &users[0].tok(), "deploy-decimals-256");
            i.deploy(&users[0], &[0x73; 32], b"N", b"S", 255, 0, None, &users[0].tok(), "deploy-decimals-255");
            i.deploy(&users[0], &[0x74; 32], b"N", b"S", 7, 0, None, &users[1].tok(), "deploy-unauthorised");
            // canonical registrations: register, re-register, register a service token, register a non-token
            let c1 = i.new_sac(true);
            let tc1 = i.register(&c1, "register-canonical");
            i.register(&c1, "register-canonical-again");
            if let Some(t) = tc1 {
                i.op(&format!("its.token_address {}", hex::encode(t)), "q");
                i.op(&format!("its.manager {}", hex::encode(t)), "q");
            }
            if let Some((_, a)) = deployed.first().cloned() {
                let t = i.register(&a, "register-service-token-as-canonical");
                i.register(&a, "register-service-token-again");
                if let Some(t) = t {
                    i.op(&format!("its.manager {}", hex::encode(t)), "q");
                }
            }
            i.register(&Addr::c(123), "register-non-token");
            // a remote deploy message squatting on the (publicly computable) canonical id of a not-yet-registered token:
            // the id is then taken (native), and registering the token as canonical must fail and change nothing
            {
                let c2 = i.new_sac(true);
                let salt_obs = i.op(&format!("its.q_canonical_salt {}", c2.tok()), "q-id");
                if let Some(salt_hex) = tok_after_ok(&salt_obs, 'x') {
                    let id_obs = i.op(&format!("its.q_token_id {} {}", Addr { contract: false, id: [0u8; 32] }.tok(), salt_hex), "q-id");
                    if let Some(idh) = tok_after_ok(&id_obs, 'x') {
                        let cid = unhx32(&idh);
                        let p = deploy_payload(&env, b"ethereum", &cid, b"Squat", b"SQ", 5, None);
                        i.deliver(&p, "remote-deploy-onto-future-canonical-id");
                        i.op(&format!("its.token_address {}", idh), "q");
                        i.op(&format!("its.manager {}", idh), "q");
                        i.register(&c2, "register-canonical-after-squat");
                        i.op(&format!("its.token_address {}", idh), "q");
                        i.op(&format!("its.manager {}", idh), "q");
                    }
                }
            }
            // remote deploy messages that collide or not
            if let Some((tid, addr)) = deployed.first().cloned() {
                let p = deploy_payload(&env, b"ethereum", &tid, b"Collide", b"CL", 3, None);
                i.deliver(&p, "remote-deploy-onto-native-id");
                i.op(&format!("its.token_address {}", hex::encode(tid)), "q");
                i.op(&format!("tok.meta {}", addr.tok()), "q");
            }
            if let Some(t) = tc1 {
                let p = deploy_payload(&env, b"ethereum", &t, b"Collide", b"CL", 3, None);
                i.deliver(&p, "remote-deploy-onto-canonical-id");
                i.op(&format!("its.token_address {}", hex::encode(t)), "q");
                i.op(&format!("its.manager {}", hex::encode(t)), "q");
            }
            // metadata is taken over EXACTLY as announced: surrounding whitespace, control characters, multi-byte text and
            // whitespace-only (but non-empty) fields are all representable and must be reported back unchanged
            let odd: Vec<(&[u8], &[u8], &str)> = vec![
                (b" Wrapped Ether  ", b"wETH\n", "surrounding-whitespace"),
                (b"\tTab", b" ", "whitespace-only-symbol"),
                (b"  ", b"SP", "whitespace-only-name"),
                ("Tökén-令牌 ".as_bytes(), "Ω ".as_bytes(), "unicode-trailing-space"),
            ];
            for (k, (name, sym, label)) in odd.iter().enumerate() {
                let mut t = [0x91u8; 32];
                t[1] = k as u8;
                t[2] = r as u8;
                let p = deploy_payload(&env, b"avalanche", &t, name, sym, 5, None);
                i.deliver(&p, &format!("remote-deploy-metadata-{label}"));
                if let Some(a) = i.op(&format!("its.token_address {}", hex::encode(t)), "q").split(' ').nth(1).map(Addr::parse) {
                    i.tokens.push(a.clone());
                    i.op(&format!("tok.meta {}", a.tok()), "q");
                }
                // the same metadata through a local deployment
                let mut salt = [0x92u8; 32];
                salt[1] = k as u8;
                salt[2] = r as u8;
                if let Some((_, a)) = i.deploy(&users[0], &salt, name, sym, 5, 0, None, &users[0].tok(), &format!("deploy-metadata-{label}")) {
                    i.op(&format!("tok.meta {}", a.tok()), "q");
                }
            }
            // a minter field that is well-formed XDR of something that is NOT an address (a string, a number, bytes), or not XDR
            // at all: the deployment is refused and the id stays free
            for (k, (bytes, label)) in [
                (soroban_sdk::String::from_str(&env, "GDRXE2BQUC3AZNPVFSCEZ76NJ3WWL25FYFK6RGZGIEKWE4SOOHSUJUJ6").to_xdr(&env).to_alloc_vec(), "xdr-string"),
                (7u32.to_xdr(&env).to_alloc_vec(), "xdr-u32"),
                (soroban_sdk::Bytes::from_slice(&env, &[1u8; 32]).to_xdr(&env).to_alloc_vec(), "xdr-bytes"),
                (b"zz".to_vec(), "garbage"),
            ].into_iter().enumerate() {
                let mut t = [0x93u8; 32];
                t[1] = k as u8;
                t[2] = r as u8;
                let p = deploy_payload(&env, b"avalanche", &t, b"Remote", b"RMT", 11, Some(bytes));
                i.deliver(&p, &format!("remote-deploy-minter-{label}"));
                i.op(&format!("its.token_address {}", hex::encode(t)), "q");
                // a corrected message for the same id must still be deployable
                let p = deploy_payload(&env, b"avalanche", &t, b"Remote", b"RMT", 11, Some(addr_xdr(&env, &users[2])));
                i.deliver(&p, &format!("remote-deploy-corrected-after-{label}"));
                i.op(&format!("its.token_address {}", hex::encode(t)), "q");
            }
            // a deploy message that is not canonically encoded inside a canonical wrapper (bytes behind it, a decimals word that
            // is no uint8, …): refused, the id stays free, and the well-formed message for the same id still deploys
            {
                let mut t = [0x94u8; 32];
                t[2] = r as u8;
                let good = deploy_payload(&env, b"avalanche", &t, b"Remote", b"RMT", 18, None);
                for (p, nm) in noncanonical_inner(b"avalanche", &good, false) {
                    i.deliver(&p, &format!("remote-deploy-{nm}"));
                    i.op(&format!("its.token_address {}", hex::encode(t)), "q");
                }
                i.deliver(&good, "remote-deploy-wellformed-after-noncanonical");
                i.op(&format!("its.token_address {}", hex::encode(t)), "q");
                if let Some(a) = i.op(&format!("its.token_address {}", hex::encode(t)), "q").split(' ').nth(1).map(Addr::parse) {
                    i.op(&format!("tok.meta {}", a.tok()), "q");
                }
            }
            for (k, minter) in [None, Some(users[2].clone()), Some(its.clone())].into_iter().enumerate() {
                let mut t = [0x90u8; 32];
                t[1] = k as u8;
                t[2] = r as u8;
                let p = deploy_payload(&env, b"avalanche", &t, b"Remote", b"RMT", 11, minter.as_ref().map(|m| addr_xdr(&env, m)));
                i.deliver(&p, &format!("remote-deploy-fresh-{k}"));
                if let Some(a) = i.op(&format!("its.token_address {}", hex::encode(t)), "q").split(' ').nth(1).map(Addr::parse) {
                    i.tokens.push(a.clone());
                    i.op(&format!("its.manager {}", hex::encode(t)), "q");
                    i.token_probe(&a, &[its.clone(), users[2].clone(), stranger.clone()]);
                    let p = transfer_payload(&env, b"ethereum", &t, b"0xsrc", &addr_xdr(&env, &users[1]), 9, None);
                    i.deliver(&p, "inbound-after-remote-deploy");
                    i.op(&format!("tok.balance {} {}", a.tok(), users[1].tok()), "q");
                    // and the same message again
                    i.deliver(&deploy_payload(&env, b"avalanche", &t, b"Remote2", b"RM2", 12, None), "remote-deploy-again");
                    i.op(&format!("tok.meta {}", a.tok()), "q");
                }
            }
        }
    }
}

// ------------------------------------------------------------------------------------------------
// C18: remote deployments
// ------------------------------------------------------------------------------------------------
pub fn gen_c18(run: &mut Run, seed: u64, thorough: bool) {
    let rounds = if thorough { 10 } else { 1 };
    let mut i = I::new(run, seed);
    for r in 0..rounds {
        i.setup(&format!("c18-{r}"));
        let users = i.users.clone();
        let stranger = Addr::c(99);
        let salt = {
            let mut s = [7u8; 32];
            s[0] = r as u8;
            s
        };
        let (tid_n, tok_n) = i.deploy(&users[0], &salt, "Tökén-令牌".as_bytes(), b"TKN", 18, 50, None, &users[0].tok(), "setup-deploy").unwrap();
        let canon = i.new_sac(true);
        i.register(&canon, "setup-register");
        // third-party tokens with metadata at the representability boundary
        let shapes: Vec<(&[u8], &[u8], u32, &str)> = vec![
            ("Ünïcode ✓".as_bytes(), b"UNI", 0, "unicode-dec0"),
            (b"Seven", b"SVN", 7, "dec7"),
            (b"Max", b"MAX", 255, "dec255"),
            (b"Over", b"OVR", 256, "dec256"),
            (b"Wrap", b"WRP", 263, "dec263"),
            (b"W16", b"WSX", 65536, "dec2^16"),
            (b"W16b", b"WSY", 65542, "dec2^16+6"),
            (b"W24", b"WTF", 0x0100_0012, "dec2^24+18"),
            (b"W31", b"WTO", 0x8000_0007, "dec2^31+7"),
            (b"W32", b"WTT", u32::MAX, "dec-u32max"),
            (b"W15", b"WFT", 0x7f00, "dec0x7f00"),
            (b"", b"EMP", 7, "empty-name"),
            (b"NoSym", b"", 7, "empty-symbol"),
            (&[0xff, 0xfe], b"BAD", 7, "non-utf8-name"),
            (b"Padded\0\0", b"PAD\0", 7, "trailing-nul"),
            (b"\0", b"\0\0", 7, "nul-only"),
            (b" Spaced ", b"SP\n", 7, "surrounding-whitespace"),
        ];
        let mut customs: Vec<(Addr, &str)> = vec![];
        for (k, (name, sym, dec, label)) in shapes.iter().enumerate() {
            let a = Addr::c(200 + k as u8);
            i.op(&format!("ctok.new {} {} {} {}", a.tok(), hx(name), hx(sym), dec), "env-custom-token");
            i.tokens.push(a.clone());
            i.register(&a, &format!("register-custom-{label}"));
            customs.push((a, label));
        }
        // third-party tokens whose answers change on re-reading (6 then 300; "Steady" then "Shifty"): whoever reads once
        // announces the first answer
        for (k, (altname, altsym, altdec, label)) in [(&b"Steady"[..], &b"STD"[..], 300u32, "shifty-decimals-300"), (b"Shifty", b"STD", 6, "shifty-name"), (b"Steady", b"SHF", 6, "shifty-symbol"), (b"Steady", b"STD", 9, "shifty-decimals-9")].iter().enumerate() {
            let a = Addr::c(230 + k as u8);
            i.op(&format!("ctok.new {} {} {} 6", a.tok(), hx(b"Steady"), hx(b"STD")), "env-custom-token");
            i.op(&format!("ctok.shifty {} {} {} {}", a.tok(), hx(altname), hx(altsym), altdec), "env-custom-token-shifty");
            i.tokens.push(a.clone());
            i.register(&a, &format!("register-custom-{label}"));
            customs.push((a, label));
        }
        // third-party tokens whose decimals cannot be READ at all (the getter traps / answers with something that is no u32),
        // registered while still healthy: a remote deployment for them is refused, nothing is announced, no gas is taken
        for (k, (mode, label)) in [(1u32, "decimals-trap"), (2, "decimals-not-u32")].iter().enumerate() {
            let a = Addr::c(240 + k as u8);
            i.op(&format!("ctok.new {} {} {} 6", a.tok(), hx(b"Broken"), hx(b"BRK")), "env-custom-token");
            i.register(&a, &format!("register-custom-{label}"));
            i.op(&format!("ctok.break {} {mode}", a.tok()), "env-custom-token-breaks");
            customs.push((a, label));
        }
        let holders = users.clone();
        i.sweep(&holders);
        let dests: Vec<(Vec<u8>, &str)> = vec![
            (b"ethereum".to_vec(), "trusted"),
            (b"Avalanche-Fuji".to_vec(), "trusted-mixed-case"),
            (b"polygon".to_vec(), "never-trusted"),
            (b"avalanche".to_vec(), "removed"),
            (i.hub_chain.clone(), "hub-itself"),
        ];
        i.op(&format!("its.remove_trusted {} {}", hx(b"avalanche"), i.owner.tok()), "remove-trusted");
        let gases: Vec<(i128, &str)> = vec![(3, "affordable"), (0, "zero"), (-1, "negative"), (1_000_000, "unaffordable")];
        // interchain form
        for (dest, dcl) in &dests {
            for (gas, gcl) in &gases {
                if !thorough && *dcl != "trusted" && *gcl != "affordable" {
                    continue;
                }
                let variants: Vec<(Addr, [u8; 32], String, &str)> = vec![
                    (users[0].clone(), salt, users[0].tok(), "deployer"),
                    (users[1].clone(), salt, users[1].tok(), "foreign-caller-same-salt"),
                    (users[0].clone(), [0x55; 32], users[0].tok(), "unregistered-salt"),
                    (users[0].clone(), salt, "-".to_string(), "nobody"),
                    (users[0].clone(), salt, stranger.tok(), "stranger-auth"),
                    (users[0].clone(), salt, format!("{}~", users[0].tok()), "root-only-auth"),
                    (users[0].clone(), salt, format!("{}!", users[0].tok()), "other-args-auth"),
                ];
                for (caller, s, auth, vcl) in variants {
                    i.op(
                        &format!("its.deploy_remote {} {} {} {} {} {}", caller.tok(), hex::encode(s), hx(dest), i.gas.tok(), gas, auth),
                        &format!("remote-interchain-{vcl}-{dcl}-gas-{gcl}"),
                    );
                }
                i.sweep(&holders);
            }
        }
        // canonical form: asset contract and every custom token
        // a service-deployed token that is ALSO registered as a canonical token: one address, two ids — the canonical remote
        // deployment announces the canonical id
        let mut both: Vec<(Addr, &str)> = vec![];
        {
            let mut salt2 = salt;
            salt2[5] = 0xb0;
            if let Some((_, tok_b)) = i.deploy(&users[0], &salt2, b"Both", b"BTH", 9, 10, None, &users[0].tok(), "setup-deploy-both") {
                i.register(&tok_b, "register-service-token-as-canonical");
                both.push((tok_b, "service-token-registered-as-canonical"));
            }
        }
        let mut canon_tokens: Vec<(Addr, &str)> = vec![(canon.clone(), "asset-contract"), (Addr::c(150), "unregistered-token"), (tok_n.clone(), "service-token-not-registered-as-canonical")];
        canon_tokens.extend(both.iter().cloned());
        canon_tokens.extend(customs.iter().cloned());
        for (tk, tcl) in &canon_tokens {
            for (dest, dcl) in &dests {
                for (gas, gcl) in &gases {
                    if !thorough && !(*dcl == "trusted" || *gcl == "affordable") {
                        continue;
                    }
                    if !thorough && *tcl != "asset-contract" && *dcl != "trusted" {
                        continue;
                    }
                    let spender = users[1].clone();
                    // (blanket authorisation too: the exact tree is built from the metadata the harness reads itself — for a token
                    // whose metadata cannot be read only the blanket mode can stand for a willing payer)
                    for (auth, acl) in [(spender.tok(), "spender"), ("-".to_string(), "nobody"), (stranger.tok(), "stranger"), ("*".to_string(), "everyone")] {
                        if acl != "spender" && *gcl != "affordable" {
                            continue;
                        }
                        i.op(
                            &format!("its.deploy_remote_canonical {} {} {} {} {} {}", tk.tok(), hx(dest), spender.tok(), i.gas.tok(), gas, auth),
                            &format!("remote-canonical-{tcl}-{dcl}-gas-{gcl}-{acl}"),
                        );
                    }
                }
            }
            i.sweep(&holders);
        }
        // (a) a hub deploy message naming the id of a REGISTERED canonical token is refused; the remote deployment of that
        //     token afterwards still announces the token's own metadata
        {
            let env = i.g.env.clone();
            let salt_obs = i.op(&format!("its.q_canonical_salt {}", canon.tok()), "q-id");
            if let Some(salt_hex) = tok_after_ok(&salt_obs, 'x') {
                let id_obs = i.op(&format!("its.q_token_id {} {}", Addr { contract: false, id: [0u8; 32] }.tok(), salt_hex), "q-id");
                if let Some(idh) = tok_after_ok(&id_obs, 'x') {
                    let cid = unhx32(&idh);
                    let p = deploy_payload(&env, b"ethereum", &cid, b"Impostor", b"IMP", 3, None);
                    i.deliver(&p, "hub-deploy-onto-registered-canonical-id");
                    i.op(&format!("its.token_address {}", idh), "q");
                    i.op(&format!("its.deploy_remote_canonical {} {} {} {} 3 {}", canon.tok(), hx(b"ethereum"), users[1].tok(), i.gas.tok(), users[1].tok()), "remote-canonical-after-impostor-message");
                }
            }
            // (b) the reverse order: the canonical id of a NOT yet registered token is taken by a hub deployment; registering the
            //     token then fails, and a remote deployment "of that token" announces what is REGISTERED under the id
            let late = Addr::c(230);
            i.op(&format!("ctok.new {} {} {} 9", late.tok(), hx(b"Latecomer"), hx(b"LATE")), "env-custom-token");
            i.tokens.push(late.clone());
            let salt_obs = i.op(&format!("its.q_canonical_salt {}", late.tok()), "q-id");
            if let Some(salt_hex) = tok_after_ok(&salt_obs, 'x') {
                let id_obs = i.op(&format!("its.q_token_id {} {}", Addr { contract: false, id: [0u8; 32] }.tok(), salt_hex), "q-id");
                if let Some(idh) = tok_after_ok(&id_obs, 'x') {
                    let cid = unhx32(&idh);
                    let p = deploy_payload(&env, b"ethereum", &cid, b"Squatter", b"SQT", 4, None);
                    i.deliver(&p, "hub-deploy-onto-future-canonical-id");
                    if let Some(a) = i.op(&format!("its.token_address {}", idh), "q").split(' ').nth(1).map(Addr::parse) {
                        i.tokens.push(a);
                    }
                    i.register(&late, "register-canonical-after-squat");
                    i.op(&format!("its.deploy_remote_canonical {} {} {} {} 3 {}", late.tok(), hx(b"ethereum"), users[1].tok(), i.gas.tok(), users[1].tok()), "remote-canonical-of-squatted-id");
                }
            }
            i.sweep(&holders);
        }
        let _ = tid_n;
    }
}
