//! Gas-service world: real AxelarGasService + real Stellar Asset Contracts as gas tokens.
#![allow(dead_code)]
use crate::common::*;
use axelar_gas_service::{AxelarGasService, AxelarGasServiceClient};
use axelar_soroban_std::types::Token;
use soroban_sdk::testutils::Ledger as _;
use soroban_sdk::token::{StellarAssetClient, TokenClient};
use soroban_sdk::{Address, Env, IntoVal, Val, Vec as SVec};

pub struct GsWorld {
    pub env: Env,
    pub gs: Option<Address>,
    pub cursor: usize,
}

type R<T, E, F> = Result<Result<Result<T, E>, Result<F, soroban_sdk::InvokeError>>, String>;

/// ops shared with other worlds that need SAC tokens
pub fn sac_exec(env: &Env, t: &[&str]) -> Option<(String, String)> {
    match t[0] {
        "sac.new" => {
            let admin = Addr::parse(t[1]).sdk(env);
            let sac = env.register_stellar_asset_contract_v2(admin);
            Some((format!("ok {}", Addr::from_sdk(&sac.address()).tok()), String::new()))
        }
        "itok.new" => {
            // itok.new <addr> <owner>: the repository's own InterchainToken (native, current source), owner = minter
            let addr = Addr::parse(t[1]).sdk(env);
            let owner = Addr::parse(t[2]).sdk(env);
            let md = soroban_token_sdk::metadata::TokenMetadata {
                name: soroban_sdk::String::from_str(env, "GasToken"),
                symbol: soroban_sdk::String::from_str(env, "GT"),
                decimal: 7,
            };
            let tid = soroban_sdk::BytesN::<32>::from_array(env, &[9u8; 32]);
            let r = guarded(|| {
                env.register_at(&addr, interchain_token::InterchainToken, (owner, None::<Address>, tid, md));
            });
            Some(match r {
                Ok(()) => (format!("ok {}", Addr::from_sdk(&addr).tok()), String::new()),
                Err(e) => ("err".into(), short_err(&e)),
            })
        }
        "sac.mint" => {
            let tok = Addr::parse(t[1]).sdk(env);
            let to = Addr::parse(t[2]).sdk(env);
            env.mock_all_auths();
            let r = guarded(|| StellarAssetClient::new(env, &tok).try_mint(&to, &pi128(t[3])));
            env.set_auths(&[]);
            Some(match r {
                Ok(Ok(Ok(()))) => ("ok".into(), String::new()),
                other => ("err".into(), short_err(&format!("{other:?}"))),
            })
        }
        "sac.transfer" => {
            let tok = Addr::parse(t[1]).sdk(env);
            let (f, to, a) = (Addr::parse(t[2]).sdk(env), Addr::parse(t[3]).sdk(env), pi128(t[4]));
            let args: SVec<Val> = (f.clone(), to.clone(), a).into_val(env);
            let wrong: SVec<Val> = (f.clone(), to.clone(), a.wrapping_add(1)).into_val(env);
            install_auth(env, &AuthSpec::parse(t[5]), &tok, "transfer", args, wrong);
            let r = guarded(|| TokenClient::new(env, &tok).try_transfer(&f, &to, &a));
            Some(match r {
                Ok(Ok(Ok(()))) => ("ok".into(), String::new()),
                other => ("err".into(), short_err(&format!("{other:?}"))),
            })
        }
        "sac.balance" => {
            let tok = Addr::parse(t[1]).sdk(env);
            let who = Addr::parse(t[2]).sdk(env);
            let r = guarded(|| TokenClient::new(env, &tok).try_balance(&who));
            Some(match r {
                Ok(Ok(Ok(b))) => (format!("ok X{b}"), String::new()),
                other => ("err".into(), short_err(&format!("{other:?}"))),
            })
        }
        _ => None,
    }
}

impl GsWorld {
    pub fn new() -> Self {
        GsWorld { env: new_env(), gs: None, cursor: 0 }
    }
    fn client(&self) -> AxelarGasServiceClient<'static> {
        AxelarGasServiceClient::new(&self.env, self.gs.as_ref().expect("gas service not constructed"))
    }
    fn events(&mut self) -> String {
        match &self.gs {
            Some(g) => new_events(&self.env, &mut self.cursor, &[g.clone()]),
            None => String::new(),
        }
    }
    fn fin<T, E: core::fmt::Debug, F: core::fmt::Debug>(&mut self, r: R<T, E, F>, show: impl Fn(&T) -> String) -> (String, String) {
        let ev = self.events();
        match r {
            Ok(Ok(Ok(v))) => (format!("ok{}{ev}", show(&v)), String::new()),
            Ok(Ok(Err(e))) => ("err".into(), short_err(&format!("conv:{e:?}"))),
            Ok(Err(Ok(e))) => ("err".into(), short_err(&format!("{e:?}"))),
            Ok(Err(Err(e))) => ("err".into(), short_err(&format!("host:{e:?}"))),
            Err(p) => ("err".into(), short_err(&format!("panic:{p}"))),
        }
    }

    pub fn exec(&mut self, t: &[&str]) -> (String, String) {
        let env = self.env.clone();
        let unit = |_: &()| String::new();
        if let Some(r) = sac_exec(&env, t) {
            // SAC events are not watched, but keep the cursor moving
            let _ = self.events();
            return r;
        }
        match t[0] {
            "time" => {
                env.ledger().set_timestamp(pu64(t[1]));
                // the sequence number never moves backwards (ticks may have advanced it)
                let cur = env.ledger().sequence();
                env.ledger().set_sequence_number(cur.max(pu32(t[2])));
                ("ok".into(), String::new())
            }
            "tick" => {
                // some ledgers close (fewer than any persistent / instance entry lives): nothing observable may change
                let cur = env.ledger().sequence();
                env.ledger().set_sequence_number(cur + pu32(t[1]));
                ("ok".into(), String::new())
            }
            "gs.new" => {
                let addr = Addr::parse(t[1]).sdk(&env);
                let owner = Addr::parse(t[2]).sdk(&env);
                let collector = Addr::parse(t[3]).sdk(&env);
                match guarded(|| {
                    env.register_at(&addr, AxelarGasService, (owner, collector));
                }) {
                    Ok(()) => {
                        self.gs = Some(addr);
                        let ev = self.events();
                        (format!("ok{ev}"), String::new())
                    }
                    Err(e) => ("err".into(), short_err(&e)),
                }
            }
            _ if self.gs.is_none() => ("err".into(), "no-gas-service".into()),
            "gs.pay_gas" => {
                // gs.pay_gas <sender> <chain> <dest> <payload> <spender> <token> <amount> <metadata> <auth>
                let gs = self.gs.clone().unwrap();
                let sender = Addr::parse(t[1]).sdk(&env);
                let (chain, dest) = (sstr(&env, &unhx(t[2])), sstr(&env, &unhx(t[3])));
                let payload = sbytes(&env, &unhx(t[4]));
                let spender = Addr::parse(t[5]).sdk(&env);
                let token = Token { address: Addr::parse(t[6]).sdk(&env), amount: pi128(t[7]) };
                let md = sbytes(&env, &unhx(t[8]));
                let args: SVec<Val> = (sender.clone(), chain.clone(), dest.clone(), payload.clone(), spender.clone(), token.clone(), md.clone()).into_val(&env);
                let mut p2 = unhx(t[4]);
                p2.push(1);
                let wrong: SVec<Val> = (sender.clone(), chain.clone(), dest.clone(), sbytes(&env, &p2), spender.clone(), token.clone(), md.clone()).into_val(&env);
                let sub = Inv::new(&token.address, "transfer", (spender.clone(), gs.clone(), token.amount).into_val(&env), vec![]);
                let tree = Inv::new(&gs, "pay_gas", args, vec![sub]);
                install_auth_tree(&env, t[9], &tree, wrong);
                let r = guarded(|| self.client().try_pay_gas(&sender, &chain, &dest, &payload, &spender, &token, &md));
                self.fin(r, unit)
            }
            "gs.add_gas" => {
                // gs.add_gas <sender> <msgid> <spender> <token> <amount> <auth>
                let gs = self.gs.clone().unwrap();
                let sender = Addr::parse(t[1]).sdk(&env);
                let mid = sstr(&env, &unhx(t[2]));
                let spender = Addr::parse(t[3]).sdk(&env);
                let token = Token { address: Addr::parse(t[4]).sdk(&env), amount: pi128(t[5]) };
                let args: SVec<Val> = (sender.clone(), mid.clone(), spender.clone(), token.clone()).into_val(&env);
                let wrong: SVec<Val> = (gs.clone(), mid.clone(), spender.clone(), token.clone()).into_val(&env);
                let sub = Inv::new(&token.address, "transfer", (spender.clone(), gs.clone(), token.amount).into_val(&env), vec![]);
                let tree = Inv::new(&gs, "add_gas", args, vec![sub]);
                install_auth_tree(&env, t[6], &tree, wrong);
                let r = guarded(|| self.client().try_add_gas(&sender, &mid, &spender, &token));
                self.fin(r, unit)
            }
            "gs.collect_fees" => {
                // gs.collect_fees <receiver> <token> <amount> <auth>
                let gs = self.gs.clone().unwrap();
                let receiver = Addr::parse(t[1]).sdk(&env);
                let token = Token { address: Addr::parse(t[2]).sdk(&env), amount: pi128(t[3]) };
                let args: SVec<Val> = (receiver.clone(), token.clone()).into_val(&env);
                // "other arguments": certainly different from the real ones whatever the receiver is (another amount)
                let wrong_token = Token { address: token.address.clone(), amount: token.amount.wrapping_add(1) };
                let wrong: SVec<Val> = (receiver.clone(), wrong_token).into_val(&env);
                let tree = Inv::new(&gs, "collect_fees", args, vec![]);
                install_auth_tree(&env, t[4], &tree, wrong);
                let r = guarded(|| self.client().try_collect_fees(&receiver, &token));
                self.fin(r, unit)
            }
            "gs.refund" => {
                // gs.refund <msgid> <receiver> <token> <amount> <auth>
                let gs = self.gs.clone().unwrap();
                let mid = sstr(&env, &unhx(t[1]));
                let receiver = Addr::parse(t[2]).sdk(&env);
                let token = Token { address: Addr::parse(t[3]).sdk(&env), amount: pi128(t[4]) };
                let args: SVec<Val> = (mid.clone(), receiver.clone(), token.clone()).into_val(&env);
                let wrong_token = Token { address: token.address.clone(), amount: token.amount.wrapping_add(1) };
                let wrong: SVec<Val> = (mid.clone(), receiver.clone(), wrong_token).into_val(&env);
                let tree = Inv::new(&gs, "refund", args, vec![]);
                install_auth_tree(&env, t[5], &tree, wrong);
                let r = guarded(|| self.client().try_refund(&mid, &receiver, &token));
                self.fin(r, unit)
            }
            "gs.transfer_ownership" => {
                let gs = self.gs.clone().unwrap();
                let new = Addr::parse(t[1]).sdk(&env);
                let tree = Inv::new(&gs, "transfer_ownership", (new.clone(),).into_val(&env), vec![]);
                install_auth_tree(&env, t[2], &tree, (gs.clone(),).into_val(&env));
                let r = guarded(|| self.client().try_transfer_ownership(&new));
                self.fin(r, unit)
            }
            "gs.upgrade_migrate" => {
                let gs = self.gs.clone().unwrap();
                let r = upgrade_migrate(&env, &gs, t[1]);
                let _ = self.events();
                r
            }
            "gs.owner" => {
                let r = guarded(|| self.client().try_owner());
                self.fin(r, |v: &Address| format!(" {}", Addr::from_sdk(v).tok()))
            }
            "gs.collector" => {
                let r = guarded(|| self.client().try_gas_collector());
                self.fin(r, |v: &Address| format!(" {}", Addr::from_sdk(v).tok()))
            }
            "gs.probe_extra" => {
                // every exported function the model does not know, called without any authorisation: whatever it is, it must
                // not move funds or change roles (the following queries show it)
                let gs = self.gs.clone().unwrap();
                let known = ["__constructor", "pay_gas", "add_gas", "collect_fees", "refund", "gas_collector", "owner", "transfer_ownership", "version", "upgrade", "migrate"];
                let addrs: Vec<Address> = t[1].split(',').filter(|x| !x.is_empty() && *x != "-").map(|x| Addr::parse(x).sdk(&env)).collect();
                let toks: Vec<(Address, i128)> = t[2].split(',').filter(|x| !x.is_empty() && *x != "-").map(|x| (Addr::parse(x).sdk(&env), 1i128)).collect();
                let names = probe_unknown_entry_points(&env, &gs, "/repo/contracts/axelar-gas-service/src/contract.rs", &known, &addrs, &toks);
                let _ = self.events();
                ("ok".into(), format!("probed={}", names.join(",")))
            }
            other => panic!("unknown gas-service op {other}"),
        }
    }
}
