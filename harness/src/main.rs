//! cgp-harness: runs generated operation sequences against the REAL contracts of /repo (native test host)
//! and records one protocol line per operation: `<op tokens> => <observation> ## <diagnostics>`.
//!
//!   cgp-harness gen <property> <tier> <seed> <out-file>
//!   cgp-harness replay <in-file> <out-file>      (re-executes the ops of an earlier trace)
mod common;
mod gw;
mod gwgen;
mod tk;
mod tkgen;
mod gs;
mod gsgen;
mod ops;
mod up;
mod ex;
mod abi;
mod its;
mod itsgen;
mod matrix;

use common::*;
use std::io::Write;

pub trait World {
    fn exec(&mut self, toks: &[&str]) -> (String, String);
}
impl World for tk::TkWorld {
    fn exec(&mut self, toks: &[&str]) -> (String, String) {
        tk::TkWorld::exec(self, toks)
    }
}
impl World for gs::GsWorld {
    fn exec(&mut self, toks: &[&str]) -> (String, String) {
        gs::GsWorld::exec(self, toks)
    }
}
impl World for ops::OpsWorld {
    fn exec(&mut self, toks: &[&str]) -> (String, String) {
        ops::OpsWorld::exec(self, toks)
    }
}
impl World for up::UpWorld {
    fn exec(&mut self, toks: &[&str]) -> (String, String) {
        up::UpWorld::exec(self, toks)
    }
}
impl World for ex::ExWorld {
    fn exec(&mut self, toks: &[&str]) -> (String, String) {
        ex::ExWorld::exec(self, toks)
    }
}
impl World for abi::AbiWorld {
    fn exec(&mut self, toks: &[&str]) -> (String, String) {
        abi::AbiWorld::exec(self, toks)
    }
}
impl World for its::ItsWorld {
    fn exec(&mut self, toks: &[&str]) -> (String, String) {
        its::ItsWorld::exec(self, toks)
    }
}
impl World for gw::GwWorld {
    fn exec(&mut self, toks: &[&str]) -> (String, String) {
        gw::GwWorld::exec(self, toks)
    }
}

pub fn new_world(cluster: &str) -> Box<dyn World> {
    match cluster {
        "gw" => Box::new(gw::GwWorld::new()),
        "tk" => Box::new(tk::TkWorld::new()),
        "tkw" => Box::new({
            let mut w = tk::TkWorld::new();
            w.blob = true;
            w
        }),
        "gs" => Box::new(gs::GsWorld::new()),
        "op" => Box::new(ops::OpsWorld::new()),
        "up" => Box::new(up::UpWorld::new()),
        "ex" => Box::new(ex::ExWorld::new()),
        "abi" => Box::new(abi::AbiWorld::new()),
        "its" => Box::new(its::ItsWorld::new()),
        other => panic!("unknown cluster {other}"),
    }
}

/// A run: trace + current world. Generators drive it.
/// ledgers of one long sleep (about seventy days; the contracts extend their entries to sixty)
pub const LONG_SLEEP: u32 = 1_200_000;

pub struct Run {
    pub tr: Trace,
    pub world: Option<Box<dyn World>>,
    pub ops: u64,
    /// automatic ledger ticks between generated operations (None when replaying: ticks are then explicit lines)
    pub ticker: Option<Rng>,
    tick_left: u32,
    sleeps_left: u32,
    migratable: Option<&'static str>,
    window_open: bool,
    tick_world: bool,
    probe_world: bool,
}
impl Run {
    pub fn new() -> Self {
        Run { tr: Trace::new(), world: None, ops: 0, ticker: None, tick_left: 0, sleeps_left: 0, migratable: None, window_open: false, tick_world: false, probe_world: false }
    }
    pub fn scenario(&mut self, cluster: &str, name: &str) {
        self.tr.lines.push(format!("scenario {cluster} {name}"));
        self.world = Some(new_world(cluster));
        // the token worlds drive the ledger sequence themselves (allowance expiry); the codec world has no ledger.
        self.tick_world = matches!(cluster, "gw" | "gs" | "op" | "up" | "ex" | "its");
        // all ticks of one scenario together stay well below the shortest lifetime of a persistent or instance
        // entry in the test host (4096 ledgers), and far above that of a temporary entry (16)
        self.tick_left = 3000;
        self.sleeps_left = 2;
        self.migratable = None;
        self.window_open = false;
        self.probe_world = matches!(cluster, "gw" | "op" | "tk" | "ex" | "its");
    }
    /// now and then: call (without authorisation) whatever the contract exports beyond what the model knows
    fn auto_probe(&mut self, op: &str) {
        if !self.probe_world || op.starts_with("time") || op.starts_with("tick") || op.starts_with("probe_extra") || op.ends_with(".new") || op.contains(".new ") {
            return;
        }
        let go = match self.ticker.as_mut() {
            Some(r) => r.below(150) == 0,
            None => false,
        };
        if !go {
            return;
        }
        let pool: Vec<String> = [Addr::c(10), Addr::c(11), Addr::c(20), Addr::c(99)].iter().map(|a| a.tok()).collect();
        let line = format!("probe_extra {} -", pool.join(","));
        let toks: Vec<&str> = line.split(' ').collect();
        let (obs, diag) = self.world.as_mut().expect("no scenario").exec(&toks);
        self.ops += 1;
        *self.tr.classes.entry("probe-unknown-entry-points".to_string()).or_insert(0) += 1;
        self.tr.lines.push(format!("{line} => {obs} ## class=probe-unknown-entry-points e={diag}"));
    }
    fn auto_tick(&mut self, op: &str) {
        if !self.tick_world || self.tick_left == 0 || op.starts_with("time") || op.starts_with("tick") {
            return;
        }
        let n = match self.ticker.as_mut() {
            Some(r) => {
                let k = r.below(90);
                if k == 1 && self.sleeps_left > 0 {
                    // a long sleep: more than the sixty days to which the contracts extend the lifetime of their entries
                    self.sleeps_left -= 1;
                    LONG_SLEEP
                } else if k % 6 != 0 {
                    return;
                } else {
                    [1u32, 15, 16, 17, 40, 150, 600][r.below(7) as usize]
                }
            }
            None => return,
        };
        let n = if n == LONG_SLEEP { n } else { n.min(self.tick_left) };
        if n != LONG_SLEEP {
            self.tick_left -= n;
        }
        let line = format!("tick {n}");
        let toks: Vec<&str> = line.split(' ').collect();
        let (obs, _) = self.world.as_mut().expect("no scenario").exec(&toks);
        self.ops += 1;
        *self.tr.classes.entry("tick".to_string()).or_insert(0) += 1;
        self.tr.lines.push(format!("{line} => {obs} ## class=tick"));
    }
    /// now and then the owner upgrades a constructed contract to its own code and runs the migration of the current tree: an
    /// administrative step that must leave everything the models know exactly as it was
    fn auto_migrate(&mut self, op: &str) {
        let prefix = match self.migratable {
            Some(p) => p,
            None => return,
        };
        if op.starts_with("time") || op.starts_with("tick") || op.starts_with("probe_extra") || op.contains(".new") || op.contains("upgrade_migrate") {
            return;
        }
        let go = match self.ticker.as_mut() {
            Some(r) => r.below(120) == 0,
            None => false,
        };
        if !go {
            return;
        }
        // the gateway's two steps are also played APART: the window then stays open across whatever comes next, until the
        // next administrative moment closes it
        let line = if prefix == "gw" && self.window_open {
            self.window_open = false;
            "gw.migrate @".to_string()
        } else if prefix == "gw" && self.ticker.as_mut().map(|r| r.below(2) == 0).unwrap_or(false) {
            self.window_open = true;
            "gw.upgrade @".to_string()
        } else {
            format!("{prefix}.upgrade_migrate @")
        };
        let toks: Vec<&str> = line.split(' ').collect();
        let (obs, diag) = self.world.as_mut().expect("no scenario").exec(&toks);
        self.ops += 1;
        *self.tr.classes.entry("owner-upgrade-and-migrate".to_string()).or_insert(0) += 1;
        self.tr.lines.push(format!("{line} => {obs} ## class=owner-upgrade-and-migrate e={diag}"));
    }
    /// execute and record; returns the observation
    pub fn op(&mut self, op: &str, class: &str) -> String {
        self.auto_tick(op);
        self.auto_probe(op);
        self.auto_migrate(op);
        let toks: Vec<&str> = op.split(' ').collect();
        let (obs, diag) = self.world.as_mut().expect("no scenario").exec(&toks);
        for p in ["gw", "gs", "op", "its", "tk"] {
            if op.starts_with(&format!("{p}.new ")) {
                // the contract most recently constructed in this scenario (none after a failed construction)
                let ok = obs.starts_with("ok");
                if p == "gw" {
                    self.window_open = false;
                }
                if ok && (self.migratable.is_none() || p == "its" || self.migratable == Some(p)) {
                    self.migratable = Some(p);
                } else if !ok && self.migratable == Some(p) {
                    self.migratable = None;
                }
            }
        }
        self.ops += 1;
        *self.tr.classes.entry(class.to_string()).or_insert(0) += 1;
        if diag.is_empty() {
            self.tr.lines.push(format!("{op} => {obs} ## class={class}"));
        } else {
            self.tr.lines.push(format!("{op} => {obs} ## class={class} e={diag}"));
        }
        obs
    }
}

fn main() {
    // keep panic messages of the contracts out of stderr noise
    if std::env::var("VERIF_DEBUG").is_err() {
        std::panic::set_hook(Box::new(|_| {}));
    }
    let args: Vec<String> = std::env::args().collect();
    if args.len() < 2 {
        eprintln!("usage: cgp-harness gen <property> <tier> <seed> <out> | replay <in> <out>");
        std::process::exit(2);
    }
    match args[1].as_str() {
        "gen" => {
            let prop = &args[2];
            let tier = &args[3];
            let seed: u64 = args[4].parse().expect("seed");
            let out = &args[5];
            let thorough = tier == "thorough";
            let mut run = Run::new();
            run.ticker = Some(Rng::new(seed ^ 0x71c4_71c4));
            // a generator that cannot continue (the implementation left the envelope it assumes, e.g. a construction it
            // expects to fail succeeded) must not lose what was executed so far: the partial trace is written and compared,
            // and the process exits with code 3
            let aborted = std::panic::catch_unwind(std::panic::AssertUnwindSafe(|| {
            match prop.as_str() {
                    "C01" => gwgen::gen_c01(&mut run, seed, thorough),
                    "C02" => gwgen::gen_c02(&mut run, seed, thorough),
                    "C03" => gwgen::gen_c03(&mut run, seed, thorough),
                    "C08" => gwgen::gen_c08(&mut run, seed, thorough),
                    "C09" => gwgen::gen_c09(&mut run, seed, thorough),
                    "C13" => gwgen::gen_c13(&mut run, seed, thorough),
                    "C12" => tkgen::gen_c12(&mut run, seed, thorough),
                    "C14" => gsgen::gen_c14(&mut run, seed, thorough),
                    "C17" => ops::gen_c17(&mut run, seed, thorough),
                    "C15" => up::gen_c15(&mut run, seed, thorough),
                    "C16" => ex::gen_c16(&mut run, seed, thorough),
                    "C10" => abi::gen_c10(&mut run, seed, thorough),
                    "C06" => matrix::gen_c06(&mut run, seed, thorough),
                    "C07" => matrix::gen_c07(&mut run, seed, thorough),
                    "C04" => itsgen::gen_c04(&mut run, seed, thorough),
                    "C05" => itsgen::gen_c05(&mut run, seed, thorough),
                    "C11" => itsgen::gen_c11(&mut run, seed, thorough),
                    "C18" => itsgen::gen_c18(&mut run, seed, thorough),
                    other => {
                        eprintln!("no generator for {other}");
                        std::process::exit(2);
                    }
                }
            }))
            .is_err();
            let mut f = std::io::BufWriter::new(std::fs::File::create(out).expect("create out"));
            writeln!(f, "# property={prop} tier={tier} seed={seed} ops={}", run.ops).unwrap();
            for l in &run.tr.lines {
                writeln!(f, "{l}").unwrap();
            }
            let dist: Vec<String> = run.tr.classes.iter().map(|(k, v)| format!("{k}={v}")).collect();
            writeln!(f, "# classes {}", dist.join(" ")).unwrap();
            if aborted {
                writeln!(f, "# generator-aborted after {} operations", run.ops).unwrap();
                drop(f);
                eprintln!("generator aborted after {} operations (partial trace written)", run.ops);
                std::process::exit(3);
            }
        }
        "replay" => {
            let inp = std::fs::read_to_string(&args[2]).expect("read in");
            let mut run = Run::new();
            for line in inp.lines() {
                let line = line.trim();
                if line.is_empty() || line.starts_with('#') {
                    continue;
                }
                if let Some(rest) = line.strip_prefix("scenario ") {
                    let mut p = rest.splitn(2, ' ');
                    let cluster = p.next().unwrap();
                    let name = p.next().unwrap_or("replay");
                    run.scenario(cluster, name);
                    continue;
                }
                let op = line.split(" => ").next().unwrap();
                let class = line.split("class=").nth(1).map(|s| s.split(' ').next().unwrap()).unwrap_or("replay");
                run.op(op, class);
            }
            let mut f = std::io::BufWriter::new(std::fs::File::create(&args[3]).expect("create out"));
            writeln!(f, "# replay of {} ops={}", args[2], run.ops).unwrap();
            for l in &run.tr.lines {
                writeln!(f, "{l}").unwrap();
            }
        }
        _ => {
            eprintln!("unknown verb");
            std::process::exit(2);
        }
    }
}
