//! Generator for C12 (interchain token rules). Mostly-valid operations + one deviation; aims amounts at the
//! boundaries by asking the implementation for the current balance / allowance.
#![allow(dead_code)]
use crate::common::*;
use crate::Run;

pub struct T<'a> {
    pub run: &'a mut Run,
    pub rng: Rng,
    pub seq: u32,
    pub now: u64,
    pub owner: Addr,
    pub former_owner: Option<Addr>,
    pub tk: Addr,
    pub accts: Vec<Addr>,
    pub minters: Vec<Addr>,
    pub maxlive: u32,
}

fn parse_i128(obs: &str) -> i128 {
    obs.split(' ').nth(1).and_then(|t| t.strip_prefix('X')).and_then(|s| s.parse().ok()).unwrap_or(0)
}

impl<'a> T<'a> {
    pub fn bal(&mut self, a: &Addr) -> i128 {
        parse_i128(&self.run.op(&format!("tk.balance {}", a.tok()), "q"))
    }
    pub fn allowance(&mut self, f: &Addr, s: &Addr) -> i128 {
        parse_i128(&self.run.op(&format!("tk.allowance {} {}", f.tok(), s.tok()), "q"))
    }
    pub fn set_seq(&mut self, seq: u32) {
        self.seq = seq;
        self.run.op(&format!("time {} {}", self.now, self.seq), "time");
    }
    pub fn amount(&mut self, bal: i128, allow: i128) -> (i128, &'static str) {
        match self.rng.below(12) {
            0 => (0, "amt0"),
            1 => (bal, "amt-bal"),
            2 => (bal.saturating_add(1), "amt-bal+1"),
            3 => (allow.saturating_add(1), "amt-allow+1"),
            4 => (allow, "amt-allow"),
            5 => (i128::MAX, "amt-max"),
            6 => (-1, "amt-neg"),
            7 => (-(self.rng.range(2, 1000) as i128), "amt-neg"),
            8 => (bal / 2, "amt-half"),
            _ => (self.rng.range(1, 50) as i128, "amt-small"),
        }
    }
    /// who authorises: the right principal most of the time, otherwise a labelled deviation
    pub fn auth_for(&mut self, right: &Addr, counterparty: Option<&Addr>) -> (AuthSpec, &'static str) {
        match self.rng.below(14) {
            0 => (AuthSpec::None, "auth-nobody"),
            1 => (AuthSpec::exact(&[Addr::c(99)]), "auth-stranger"),
            2 => (AuthSpec::exact(&[self.owner.clone()]), if *right == self.owner { "auth-right" } else { "auth-owner" }),
            3 => match counterparty {
                Some(c) if c != right => (AuthSpec::exact(&[c.clone()]), "auth-counterparty"),
                _ => (AuthSpec::exact(&[right.clone()]), "auth-right"),
            },
            4 => (AuthSpec::List(vec![(right.clone(), true)]), "auth-right-other-args"),
            5 => match self.former_owner.clone() {
                Some(f) if f != *right => (AuthSpec::exact(&[f]), "auth-former-owner"),
                _ => (AuthSpec::exact(&[right.clone()]), "auth-right"),
            },
            6 => (AuthSpec::All, "auth-everyone"),
            _ => (AuthSpec::exact(&[right.clone()]), "auth-right"),
        }
    }
    pub fn q_all(&mut self, touched: Option<(&Addr, &Addr)>) {
        for a in self.accts.clone() {
            self.run.op(&format!("tk.balance {}", a.tok()), "q");
        }
        if let Some((f, s)) = touched {
            self.run.op(&format!("tk.allowance {} {}", f.tok(), s.tok()), "q");
        }
        for _ in 0..2 {
            let f = self.rng.pick(&self.accts.clone()).clone();
            let s = self.rng.pick(&self.accts.clone()).clone();
            self.run.op(&format!("tk.allowance {} {}", f.tok(), s.tok()), "q");
        }
    }
}

pub fn gen_c12(run: &mut Run, seed: u64, thorough: bool) {
    let histories = if thorough { 300 } else { 40 };
    let len = if thorough { 45 } else { 40 };
    let mut rng0 = Rng::new(seed);
    let maxlive0: u32 = new_env().storage().max_ttl();
    for h in 0..histories {
        let nacc = if thorough { 6 } else { 4 };
        let owner = Addr::c(1);
        let ctor_minter = if h % 3 == 0 { None } else { Some(Addr::c(3)) };
        let mut accts: Vec<Addr> = (10..10 + nacc).map(|i| Addr::c(i as u8)).collect();
        accts.push(owner.clone());
        let mut t = T {
            run,
            rng: Rng::new(rng0.next()),
            seq: 100 + (h as u32 % 7),
            now: 5000,
            owner: owner.clone(),
            former_owner: None,
            tk: Addr::c(200),
            accts,
            minters: vec![owner.clone()],
            maxlive: 0,
        };
        if let Some(m) = &ctor_minter {
            t.minters.push(m.clone());
        }
        t.run.scenario("tk", &format!("c12-{h}"));
        t.set_seq(t.seq);
        t.run.op(
            &format!(
                "tk.new {} {} {} {} {} {} {} {}",
                t.tk.tok(),
                owner.tok(),
                ctor_minter.as_ref().map(|m| m.tok()).unwrap_or("-".into()),
                hex::encode(keccak(&[h as u8])),
                hx(b"Token"),
                hx(b"TKN"),
                h % 19,
                maxlive0
            ),
            "construct",
        );
        let ml = t.run.op("tk.maxlive", "q");
        t.maxlive = ml.split(' ').nth(1).and_then(|x| x.strip_prefix('u')).and_then(|x| x.parse().ok()).unwrap_or(0);
        // seed some balances
        for a in t.accts.clone().iter().take(3) {
            let amt = t.rng.range(10, 200) as i128;
            let m = t.rng.pick(&t.minters.clone()).clone();
            t.run.op(&format!("tk.mint_from {} {} {} {}", m.tok(), a.tok(), amt, AuthSpec::exact(&[m.clone()]).tok()), "seed-mint");
        }
        for _ in 0..len {
            let accts = t.accts.clone();
            let a = t.rng.pick(&accts).clone();
            let b = t.rng.pick(&accts).clone();
            let c = t.rng.pick(&accts).clone();
            let kind = t.rng.below(20);
            let mut touched: Option<(Addr, Addr)> = None;
            match kind {
                0 | 1 => {
                    // mint_from by a minter / non-minter / former minter
                    let who = if t.rng.chance(3, 4) && !t.minters.is_empty() { t.rng.pick(&t.minters.clone()).clone() } else { a.clone() };
                    let bal = t.bal(&b);
                    let (amt, ac) = match t.rng.below(6) {
                        0 => (i128::MAX - bal, "amt-to-max"),
                        1 => ((i128::MAX - bal).saturating_add(1), "amt-overflow"),
                        _ => t.amount(bal, 0),
                    };
                    let (auth, aucl) = t.auth_for(&who, Some(&b));
                    t.run.op(&format!("tk.mint_from {} {} {} {}", who.tok(), b.tok(), amt, auth.tok()), &format!("mint_from-{ac}-{aucl}"));
                }
                2 => {
                    let bal = t.bal(&b);
                    let (amt, ac) = t.amount(bal, 0);
                    let o = t.owner.clone();
                    let (auth, aucl) = t.auth_for(&o, Some(&b));
                    t.run.op(&format!("tk.mint {} {} {}", b.tok(), amt, auth.tok()), &format!("mint-{ac}-{aucl}"));
                }
                3 => {
                    let o = t.owner.clone();
                    let (auth, aucl) = t.auth_for(&o, Some(&a));
                    let obs = t.run.op(&format!("tk.add_minter {} {}", a.tok(), auth.tok()), &format!("add_minter-{aucl}"));
                    if obs.starts_with("ok") && !t.minters.contains(&a) {
                        t.minters.push(a.clone());
                    }
                }
                4 => {
                    let o = t.owner.clone();
                    let m = if t.rng.chance(2, 3) && !t.minters.is_empty() { t.rng.pick(&t.minters.clone()).clone() } else { a.clone() };
                    let (auth, aucl) = t.auth_for(&o, Some(&m));
                    let obs = t.run.op(&format!("tk.remove_minter {} {}", m.tok(), auth.tok()), &format!("remove_minter-{aucl}"));
                    if obs.starts_with("ok") {
                        t.minters.retain(|x| *x != m);
                    }
                    t.run.op(&format!("tk.is_minter {}", m.tok()), "q");
                }
                5 | 6 | 7 => {
                    // approve with expirations around the current ledger
                    let bal = t.bal(&a);
                    let cur = t.allowance(&a, &b);
                    let (amt, ac) = t.amount(bal, cur);
                    let (exp, ec): (u32, &str) = match t.rng.below(9) {
                        0 => (t.seq.saturating_sub(1), "exp-past"),
                        1 => (0, "exp-zero"),
                        2 => (t.seq, "exp-now"),
                        3 => (t.seq + 1, "exp-next"),
                        4 => (t.seq + t.maxlive, "exp-hostmax"),
                        5 => (t.seq + t.maxlive + 1, "exp-hostmax+1"),
                        6 => (u32::MAX, "exp-u32max"),
                        _ => (t.seq + t.rng.range(2, 12) as u32, "exp-soon"),
                    };
                    let (auth, aucl) = t.auth_for(&a, Some(&b));
                    t.run.op(&format!("tk.approve {} {} {} {} {}", a.tok(), b.tok(), amt, exp, auth.tok()), &format!("approve-{ac}-{ec}-{aucl}"));
                    touched = Some((a.clone(), b.clone()));
                }
                8 | 9 | 10 => {
                    let bal = t.bal(&a);
                    let (amt, ac) = t.amount(bal, 0);
                    let (auth, aucl) = t.auth_for(&a, Some(&b));
                    let selfc = if a == b { "-self" } else { "" };
                    t.run.op(&format!("tk.transfer {} {} {} {}", a.tok(), b.tok(), amt, auth.tok()), &format!("transfer{selfc}-{ac}-{aucl}"));
                }
                11 | 12 | 13 => {
                    // delegated transfer: spender b spends a's allowance towards c
                    let bal = t.bal(&a);
                    let al = t.allowance(&a, &b);
                    let (amt, ac) = t.amount(bal, al);
                    let (auth, aucl) = t.auth_for(&b, Some(&a));
                    t.run.op(&format!("tk.transfer_from {} {} {} {} {}", b.tok(), a.tok(), c.tok(), amt, auth.tok()), &format!("transfer_from-{ac}-{aucl}"));
                    touched = Some((a.clone(), b.clone()));
                }
                14 => {
                    let bal = t.bal(&a);
                    let (amt, ac) = t.amount(bal, 0);
                    let (auth, aucl) = t.auth_for(&a, None);
                    t.run.op(&format!("tk.burn {} {} {}", a.tok(), amt, auth.tok()), &format!("burn-{ac}-{aucl}"));
                }
                15 | 16 => {
                    let bal = t.bal(&a);
                    let al = t.allowance(&a, &b);
                    let (amt, ac) = t.amount(bal, al);
                    let (auth, aucl) = t.auth_for(&b, Some(&a));
                    t.run.op(&format!("tk.burn_from {} {} {} {}", b.tok(), a.tok(), amt, auth.tok()), &format!("burn_from-{ac}-{aucl}"));
                    touched = Some((a.clone(), b.clone()));
                }
                17 => {
                    // ledger advancement: by 1, to just before/at/after some expiration
                    let d = match t.rng.below(4) {
                        0 => 1,
                        1 => 2,
                        2 => t.rng.range(1, 6) as u32,
                        _ => 0,
                    };
                    let s = t.seq + d;
                    t.set_seq(s);
                }
                18 => {
                    // ownership change (either entry point), also to self and back
                    let new = match t.rng.below(4) {
                        0 => t.owner.clone(),
                        1 => t.former_owner.clone().unwrap_or(a.clone()),
                        _ => a.clone(),
                    };
                    let o = t.owner.clone();
                    let (auth, aucl) = t.auth_for(&o, Some(&new));
                    let f = if t.rng.chance(1, 2) { "tk.transfer_ownership" } else { "tk.set_admin" };
                    let obs = t.run.op(&format!("{f} {} {}", new.tok(), auth.tok()), &format!("{}-{aucl}", &f[3..]));
                    if obs.starts_with("ok") {
                        t.former_owner = Some(o);
                        t.owner = new;
                    }
                    t.run.op("tk.owner", "q");
            t.run.op("tk.token_id", "q");
                    t.run.op("tk.admin", "q");
                }
                _ => {
                    let x = t.rng.pick(&accts).clone();
                    t.run.op(&format!("tk.is_minter {}", x.tok()), "q");
                }
            }
            let tt = touched.as_ref().map(|(x, y)| (x, y));
            t.q_all(tt);
        }
    }
    // expiry boundary, deterministic: approve exp = seq + 3, probe at every ledger from seq to seq + 5
    {
        let mut t = T {
            run,
            rng: Rng::new(seed ^ 0xabc),
            seq: 50,
            now: 1,
            owner: Addr::c(1),
            former_owner: None,
            tk: Addr::c(200),
            accts: vec![Addr::c(10), Addr::c(11), Addr::c(12)],
            minters: vec![Addr::c(1)],
            maxlive: 0,
        };
        for variant in 0..3 {
            t.run.scenario("tk", &format!("c12-expiry-{variant}"));
            t.set_seq(50);
            t.run.op(&format!("tk.new {} {} - {} {} {} 7 {maxlive0}", t.tk.tok(), t.owner.tok(), hex::encode([7u8; 32]), hx(b"T"), hx(b"T")), "construct");
            let (a, b, c) = (Addr::c(10), Addr::c(11), Addr::c(12));
            t.run.op(&format!("tk.mint {} 1000 {}", a.tok(), t.owner.tok()), "seed-mint");
            t.run.op(&format!("tk.approve {} {} 100 53 {}", a.tok(), b.tok(), a.tok()), "approve-boundary");
            for s in 50..=56u32 {
                t.set_seq(s);
                t.run.op(&format!("tk.allowance {} {}", a.tok(), b.tok()), "q-boundary");
                match variant {
                    0 => {
                        t.run.op(&format!("tk.transfer_from {} {} {} 1 {}", b.tok(), a.tok(), c.tok(), b.tok()), &format!("transfer_from-at-exp{:+}", s as i64 - 53));
                    }
                    1 => {
                        t.run.op(&format!("tk.burn_from {} {} 1 {}", b.tok(), a.tok(), b.tok()), &format!("burn_from-at-exp{:+}", s as i64 - 53));
                    }
                    _ => {
                        // re-approve positive amounts with the (now possibly past) expiration
                        t.run.op(&format!("tk.approve {} {} 5 53 {}", a.tok(), b.tok(), a.tok()), &format!("reapprove-at-exp{:+}", s as i64 - 53));
                        // the smallest positive amount counts as positive
                        t.run.op(&format!("tk.approve {} {} 1 53 {}", a.tok(), b.tok(), a.tok()), &format!("reapprove1-at-exp{:+}", s as i64 - 53));
                        t.run.op(&format!("tk.allowance {} {}", a.tok(), b.tok()), "q");
                        t.run.op(&format!("tk.approve {} {} 0 53 {}", a.tok(), b.tok(), a.tok()), &format!("reapprove0-at-exp{:+}", s as i64 - 53));
                    }
                }
                t.run.op(&format!("tk.allowance {} {}", a.tok(), b.tok()), "q-boundary");
                t.run.op(&format!("tk.balance {}", a.tok()), "q");
                t.run.op(&format!("tk.balance {}", c.tok()), "q");
            }
        }
        // replacing a live allowance, deterministic: a→b 100 until ledger 80 (and a→c 50, never touched); at ledger 60 the owner
        // of the funds withdraws / shortens / repeats it in every customary way; then the ledger walks past both expirations
        let styles: [(i128, u32, &str); 10] = [
            (0, 0, "withdraw-exp0"),
            (0, 59, "withdraw-exp-just-past"),
            (0, 60, "withdraw-exp-now"),
            (0, 65, "withdraw-exp-future"),
            (100, 65, "same-amount-earlier-exp"),
            (100, 59, "same-amount-past-exp"),
            (100, 90, "same-amount-later-exp"),
            (100, 80, "same-amount-same-exp"),
            (40, 65, "smaller-amount-earlier-exp"),
            (101, 65, "larger-amount-earlier-exp"),
        ];
        for (k, (amt, exp, label)) in styles.iter().enumerate() {
            t.run.scenario("tk", &format!("c12-replace-{k}-{label}"));
            t.set_seq(50);
            t.run.op(&format!("tk.new {} {} - {} {} {} 7 {maxlive0}", t.tk.tok(), t.owner.tok(), hex::encode([7u8; 32]), hx(b"T"), hx(b"T")), "construct");
            let (a, b, c) = (Addr::c(10), Addr::c(11), Addr::c(12));
            t.run.op(&format!("tk.mint {} 1000 {}", a.tok(), t.owner.tok()), "seed-mint");
            t.run.op(&format!("tk.approve {} {} 100 80 {}", a.tok(), b.tok(), a.tok()), "approve-first");
            t.run.op(&format!("tk.approve {} {} 50 80 {}", a.tok(), c.tok(), a.tok()), "approve-other-spender");
            if k % 2 == 1 {
                // a partial spend in between
                t.run.op(&format!("tk.transfer_from {} {} {} 10 {}", b.tok(), a.tok(), c.tok(), b.tok()), "spend-before-replace");
                t.run.op(&format!("tk.approve {} {} 100 80 {}", a.tok(), b.tok(), a.tok()), "approve-first-again");
            }
            t.set_seq(60);
            t.run.op(&format!("tk.approve {} {} {} {} {}", a.tok(), b.tok(), amt, exp, a.tok()), &format!("replace-{label}"));
            for s in [60u32, 64, 65, 66, 80, 81, 91] {
                t.set_seq(s);
                t.run.op(&format!("tk.allowance {} {}", a.tok(), b.tok()), "q-after-replace");
                t.run.op(&format!("tk.allowance {} {}", a.tok(), c.tok()), "q-other-spender");
                if s % 2 == 0 {
                    t.run.op(&format!("tk.transfer_from {} {} {} 1 {}", b.tok(), a.tok(), c.tok(), b.tok()), &format!("transfer_from-after-{label}"));
                } else {
                    t.run.op(&format!("tk.burn_from {} {} 1 {}", b.tok(), a.tok(), b.tok()), &format!("burn_from-after-{label}"));
                }
                t.run.op(&format!("tk.balance {}", a.tok()), "q");
                t.run.op(&format!("tk.balance {}", c.tok()), "q");
            }
        }
        // LONG-lived allowances (weeks): re-approved with a later expiration while still live, then the ledger moves past the first
        // expiration — the allowance is the one granted last; and an allowance of exactly i128::MAX / MAX-1 is used up like any other
        for (k, (first, second)) in [(345_600u32, 691_200u32), (241_920, 241_921), (241_921, 483_842), (1_000_000, 2_000_000), (20, 345_600)].iter().enumerate() {
            t.run.scenario("tk", &format!("c12-long-allowance-{k}"));
            t.set_seq(50);
            t.run.op(&format!("tk.new {} {} - {} {} {} 7 {maxlive0}", t.tk.tok(), t.owner.tok(), hex::encode([7u8; 32]), hx(b"T"), hx(b"T")), "construct");
            let (a, b, c) = (Addr::c(10), Addr::c(11), Addr::c(12));
            t.run.op(&format!("tk.mint {} 1000 {}", a.tok(), t.owner.tok()), "seed-mint");
            t.run.op(&format!("tk.approve {} {} 500 {} {}", a.tok(), b.tok(), 50 + first, a.tok()), "approve-long-first");
            t.set_seq(60);
            t.run.op(&format!("tk.approve {} {} 500 {} {}", a.tok(), b.tok(), 50 + second, a.tok()), "approve-long-later-expiration");
            for s in [50 + first - 1, 50 + first, 50 + first + 1, 50 + first + 17, 50 + second, 50 + second + 1] {
                // in every other scenario nothing touches the allowance before the FIRST expiration has passed
                if s < 60 || (k % 2 == 0 && s <= 50 + first) {
                    continue;
                }
                t.set_seq(s);
                t.run.op(&format!("tk.allowance {} {}", a.tok(), b.tok()), "q-long-allowance");
                t.run.op(&format!("tk.transfer_from {} {} {} 1 {}", b.tok(), a.tok(), c.tok(), b.tok()), "transfer_from-long-allowance");
                t.run.op(&format!("tk.balance {}", a.tok()), "q");
            }
        }
        for (k, amt) in [i128::MAX, i128::MAX - 1, (1i128 << 64), i128::MAX - (1i128 << 64)].iter().enumerate() {
            t.run.scenario("tk", &format!("c12-huge-allowance-{k}"));
            t.set_seq(50);
            t.run.op(&format!("tk.new {} {} - {} {} {} 7 {maxlive0}", t.tk.tok(), t.owner.tok(), hex::encode([7u8; 32]), hx(b"T"), hx(b"T")), "construct");
            let (a, b, c) = (Addr::c(10), Addr::c(11), Addr::c(12));
            t.run.op(&format!("tk.mint {} 1000 {}", a.tok(), t.owner.tok()), "seed-mint");
            t.run.op(&format!("tk.approve {} {} {amt} 500 {}", a.tok(), b.tok(), a.tok()), "approve-huge");
            for spend in [5i128, 0, 7, 988, 1] {
                t.run.op(&format!("tk.transfer_from {} {} {} {spend} {}", b.tok(), a.tok(), c.tok(), b.tok()), "transfer_from-huge-allowance");
                t.run.op(&format!("tk.allowance {} {}", a.tok(), b.tok()), "q-huge-allowance");
                t.run.op(&format!("tk.burn_from {} {} 1 {}", b.tok(), a.tok(), b.tok()), "burn_from-huge-allowance");
                t.run.op(&format!("tk.allowance {} {}", a.tok(), b.tok()), "q-huge-allowance");
                t.run.op(&format!("tk.balance {}", a.tok()), "q");
            }
        }
        // constructor metadata validation
        for (i, (name, symb, dec)) in [(b"T".to_vec(), b"T".to_vec(), 255u32), (b"T".to_vec(), b"T".to_vec(), 256), (vec![], b"T".to_vec(), 7), (b"T".to_vec(), vec![], 7), (b"T".to_vec(), b"T".to_vec(), 0)].iter().enumerate() {
            t.run.scenario("tk", &format!("c12-ctor-{i}"));
            t.set_seq(50);
            t.run.op(&format!("tk.new {} {} {} {} {} {} {} {maxlive0}", t.tk.tok(), t.owner.tok(), Addr::c(3).tok(), hex::encode([7u8; 32]), hx(name), hx(symb), dec), "construct-metadata");
            t.run.op("tk.owner", "q");
            t.run.op("tk.token_id", "q");
            t.run.op(&format!("tk.is_minter {}", t.owner.tok()), "q");
            t.run.op(&format!("tk.is_minter {}", Addr::c(3).tok()), "q");
            t.run.op(&format!("tk.is_minter {}", Addr::c(10).tok()), "q");
        }
    }
}
