//! Upgrade world (C15): the five production contracts (self-upgrade keeps native dispatch), a native dummy
//! target, the real dummy.wasm as "code after upgrade", and the real Upgrader.
#![allow(dead_code)]
use crate::common::*;
use crate::ops::parse_args;
use axelar_gas_service::AxelarGasService;
use axelar_gateway::types::{WeightedSigner, WeightedSigners};
use axelar_gateway::AxelarGateway;
use axelar_operators::AxelarOperators;
use axelar_soroban_std::interfaces;
use axelar_soroban_std::interfaces::{OwnableInterface, UpgradableInterface};
use interchain_token::InterchainToken;
use interchain_token_service::InterchainTokenService;
use soroban_sdk::testutils::Ledger as _;
use soroban_sdk::{contract, contractimpl, contracttype, Address, Bytes, BytesN, Env, IntoVal, String as SString, Symbol, Val, Vec as SVec};
use soroban_token_sdk::metadata::TokenMetadata;
use upgrader::{Upgrader, UpgraderClient};

const DUMMY_WASM: &[u8] = include_bytes!("/repo/contracts/upgrader/tests/testdata/dummy.wasm");
const TOKEN_WASM: &[u8] = include_bytes!("/repo/contracts/interchain-token-service/tests/testdata/interchain_token.wasm");

/// the upgrader test-suite's dummy target, before upgrade (version 0.1.0, no migrate entry point)
#[contract]
pub struct DummyContract;
#[contractimpl]
impl UpgradableInterface for DummyContract {
    fn version(env: &Env) -> SString {
        SString::from_str(env, "0.1.0")
    }
    fn upgrade(env: &Env, new_wasm_hash: BytesN<32>) {
        Self::owner(env).require_auth();
        env.deployer().update_current_contract_wasm(new_wasm_hash);
    }
}
#[contractimpl]
impl OwnableInterface for DummyContract {
    fn owner(env: &Env) -> Address {
        interfaces::owner(env)
    }
    fn transfer_ownership(env: &Env, new_owner: Address) {
        interfaces::transfer_ownership::<Self>(env, new_owner);
    }
}
#[contractimpl]
impl DummyContract {
    pub fn __constructor(env: Env, owner: Address) {
        interfaces::set_owner(&env, &owner);
    }
}

#[contracttype]
#[allow(non_camel_case_types)]
pub enum MigKey {
    Interfaces_Migrating,
}
#[contracttype]
pub enum DataKey {
    Data,
}

pub const KINDS: [&str; 6] = ["gw", "gs", "op", "its", "tk", "dummy"];

pub struct UpWorld {
    pub env: Env,
    pub addrs: Vec<(String, Address)>,
    pub upgrader: Option<Address>,
    pub dummy_hash: Option<BytesN<32>>,
    pub cursor: usize,
}

impl UpWorld {
    pub fn new() -> Self {
        UpWorld { env: new_env(), addrs: vec![], upgrader: None, dummy_hash: None, cursor: 0 }
    }
    fn addr(&self, kind: &str) -> Address {
        self.addrs.iter().find(|(k, _)| k == kind).map(|(_, a)| a.clone()).unwrap_or_else(|| panic!("unknown kind {kind}"))
    }
    fn events(&mut self) -> String {
        let watch: Vec<Address> = self.addrs.iter().map(|(_, a)| a.clone()).collect();
        new_events(&self.env, &mut self.cursor, &watch)
    }
    fn hash(&self, kind: &str) -> BytesN<32> {
        match kind {
            "self" => self.env.crypto().sha256(&Bytes::new(&self.env)).into(),
            "dummy" => self.dummy_hash.clone().unwrap(),
            _ => BytesN::from_array(&self.env, &[0x42; 32]),
        }
    }
    fn data(&self, kind: &str) -> SVec<Val> {
        // migration data as an argument list token, e.g. "[v]" (unit), "[s6869]" (string), "[u7]", "[]"
        parse_args(&self.env, kind)
    }

    pub fn exec(&mut self, t: &[&str]) -> (String, String) {
        let env = self.env.clone();
        match t[0] {
            "time" => {
                env.ledger().set_timestamp(pu64(t[1]));
                // the sequence number never moves backwards (ticks may have advanced it)
                let cur = env.ledger().sequence();
                env.ledger().set_sequence_number(cur.max(pu32(t[2])));
                ("ok".into(), String::new())
            }
            "tick" => {
                // some ledgers close (fewer than any persistent / instance entry lives): nothing observable may change
                let cur = env.ledger().sequence();
                env.ledger().set_sequence_number(cur + pu32(t[1]));
                ("ok".into(), String::new())
            }
            "up.new" => {
                // up.new <owner>
                let owner = Addr::parse(t[1]).sdk(&env);
                let a = |n: u8| Addr::c(n).sdk(&env);
                let ws = WeightedSigners {
                    signers: soroban_sdk::vec![&env, WeightedSigner { signer: BytesN::from_array(&env, &[7; 32]), weight: 1 }],
                    threshold: 1,
                    nonce: BytesN::from_array(&env, &[0; 32]),
                };
                env.register_at(&a(170), AxelarGateway, (owner.clone(), a(2), BytesN::<32>::from_array(&env, &[1; 32]), 0u64, 1u64, soroban_sdk::vec![&env, ws]));
                env.register_at(&a(171), AxelarGasService, (owner.clone(), a(2)));
                env.register_at(&a(172), AxelarOperators, (owner.clone(),));
                let token_hash = env.deployer().upload_contract_wasm(TOKEN_WASM);
                env.register_at(&a(173), InterchainTokenService, (owner.clone(), a(170), a(171), SString::from_str(&env, "hub"), SString::from_str(&env, "stellar"), token_hash));
                let md = TokenMetadata { name: SString::from_str(&env, "T"), symbol: SString::from_str(&env, "T"), decimal: 7 };
                env.register_at(&a(174), InterchainToken, (owner.clone(), None::<Address>, BytesN::<32>::from_array(&env, &[9; 32]), md));
                env.register_at(&a(175), DummyContract, (owner.clone(),));
                env.register_at(&a(176), Upgrader, ());
                self.upgrader = Some(a(176));
                self.dummy_hash = Some(env.deployer().upload_contract_wasm(DUMMY_WASM));
                self.addrs = KINDS.iter().enumerate().map(|(i, k)| (k.to_string(), a(170 + i as u8))).collect();
                let _ = self.events();
                // report environment constants: version strings as each contract reports them
                let mut s = String::from("ok");
                for (k, ad) in self.addrs.clone() {
                    let v: SString = env.invoke_contract(&ad, &Symbol::new(&env, "version"), SVec::new(&env));
                    s.push_str(&format!(" {}={}", k, hx(&sstr_bytes(&v))));
                }
                (s, String::new())
            }
            "up.upgrade" => {
                // up.upgrade <kind> <hashkind> <auth>
                let c = self.addr(t[1]);
                let h = self.hash(t[2]);
                let tree = Inv::new(&c, "upgrade", (h.clone(),).into_val(&env), vec![]);
                install_auth_tree(&env, t[3], &tree, (BytesN::<32>::from_array(&env, &[0x43; 32]),).into_val(&env));
                let r = guarded(|| env.try_invoke_contract::<Val, soroban_sdk::Error>(&c, &Symbol::new(&env, "upgrade"), (h,).into_val(&env)));
                let ev = self.events();
                match r {
                    Ok(Ok(Ok(_))) => (format!("ok{ev}"), String::new()),
                    other => ("err".into(), short_err(&format!("{other:?}"))),
                }
            }
            "up.migrate" => {
                // up.migrate <kind> <data> <auth>
                let c = self.addr(t[1]);
                let d = self.data(t[2]);
                let tree = Inv::new(&c, "migrate", d.clone(), vec![]);
                install_auth_tree(&env, t[3], &tree, (7u32, 8u32).into_val(&env));
                let r = guarded(|| env.try_invoke_contract::<Val, soroban_sdk::Error>(&c, &Symbol::new(&env, "migrate"), d));
                let ev = self.events();
                match r {
                    Ok(Ok(Ok(_))) => (format!("ok{ev}"), String::new()),
                    other => ("err".into(), short_err(&format!("{other:?}"))),
                }
            }
            "up.transfer_ownership" => {
                let c = self.addr(t[1]);
                let n = Addr::parse(t[2]).sdk(&env);
                let tree = Inv::new(&c, "transfer_ownership", (n.clone(),).into_val(&env), vec![]);
                install_auth_tree(&env, t[3], &tree, (c.clone(),).into_val(&env));
                let r = guarded(|| env.try_invoke_contract::<Val, soroban_sdk::Error>(&c, &Symbol::new(&env, "transfer_ownership"), (n,).into_val(&env)));
                let _ = self.events();
                match r {
                    Ok(Ok(Ok(_))) => ("ok".into(), String::new()),
                    other => ("err".into(), short_err(&format!("{other:?}"))),
                }
            }
            "up.upgrader" => {
                // up.upgrader <kind> <newversion-hex> <hashkind> <data> <auth: list of addr:both|up|mig, or ->
                let c = self.addr(t[1]);
                let nv = sstr(&env, &unhx(t[2]));
                let h = self.hash(t[3]);
                let d = self.data(t[4]);
                let up = self.upgrader.clone().unwrap();
                if t[5] == "-" {
                    env.set_auths(&[]);
                } else {
                    use soroban_sdk::testutils::MockAuth;
                    let mut mocks: Vec<MockAuth<'static>> = vec![];
                    for e in t[5].split(',') {
                        let (a, what) = e.split_once(':').unwrap();
                        let addr: &'static Address = Box::leak(Box::new(Addr::parse(a).sdk(&env)));
                        if what == "both" || what == "up" {
                            let inv = Inv::new(&c, "upgrade", (h.clone(),).into_val(&env), vec![]);
                            mocks.push(MockAuth { address: addr, invoke: leak_inv(&inv) });
                        }
                        if what == "both" || what == "mig" {
                            let inv = Inv::new(&c, "migrate", d.clone(), vec![]);
                            mocks.push(MockAuth { address: addr, invoke: leak_inv(&inv) });
                        }
                    }
                    env.mock_auths(&mocks);
                }
                let r = guarded(|| UpgraderClient::new(&env, &up).try_upgrade(&c, &nv, &h, &d));
                let ev = self.events();
                match r {
                    Ok(Ok(Ok(()))) => (format!("ok{ev}"), String::new()),
                    Ok(Err(Ok(e))) => ("err".into(), format!("contract#{}", e as u32)),
                    Ok(Err(Err(e))) => ("err".into(), short_err(&format!("host:{e:?}"))),
                    Ok(Ok(Err(_))) => ("err".into(), "conv".into()),
                    Err(p) => ("err".into(), short_err(&p)),
                }
            }
            "up.version" => {
                let c = self.addr(t[1]);
                match guarded(|| env.try_invoke_contract::<SString, soroban_sdk::Error>(&c, &Symbol::new(&env, "version"), SVec::new(&env))) {
                    Ok(Ok(Ok(v))) => (format!("ok s{}", hx(&sstr_bytes(&v))), String::new()),
                    other => ("err".into(), short_err(&format!("{other:?}"))),
                }
            }
            "up.owner" => {
                let c = self.addr(t[1]);
                match guarded(|| env.try_invoke_contract::<Address, soroban_sdk::Error>(&c, &Symbol::new(&env, "owner"), SVec::new(&env))) {
                    Ok(Ok(Ok(v))) => (format!("ok {}", Addr::from_sdk(&v).tok()), String::new()),
                    other => ("err".into(), short_err(&format!("{other:?}"))),
                }
            }
            "up.flag" => {
                let c = self.addr(t[1]);
                let b = env.as_contract(&c, || env.storage().instance().has(&MigKey::Interfaces_Migrating));
                (format!("ok b{}", b as u8), String::new())
            }
            "up.data" => {
                let c = self.addr(t[1]);
                let d: Option<SString> = env.as_contract(&c, || env.storage().instance().get(&DataKey::Data));
                match d {
                    Some(s) => (format!("ok s{}", hx(&sstr_bytes(&s))), String::new()),
                    None => ("ok v".into(), String::new()),
                }
            }
            other => panic!("unknown upgrade op {other}"),
        }
    }
}

fn leak_inv(inv: &Inv) -> &'static soroban_sdk::testutils::MockAuthInvoke<'static> {
    let subs: &'static [soroban_sdk::testutils::MockAuthInvoke<'static>] = Box::leak(Vec::new().into_boxed_slice());
    Box::leak(Box::new(soroban_sdk::testutils::MockAuthInvoke {
        contract: Box::leak(Box::new(inv.contract.clone())),
        fn_name: Box::leak(inv.fn_name.clone().into_boxed_str()),
        args: inv.args.clone(),
        sub_invokes: subs,
    }))
}

pub fn gen_c15(run: &mut crate::Run, seed: u64, thorough: bool) {
    let mut rng = Rng::new(seed);
    let owner = Addr::c(1);
    let new_owner = Addr::c(3);
    let stranger = Addr::c(99);
    // ---- (a) all sequences over {upgrade, migrate} x {owner, former owner, stranger, nobody} up to a bounded length,
    //          for each production contract and the dummy; one ownership transfer in the middle of half the runs
    let maxlen = if thorough { 4 } else { 3 };
    let letters: Vec<(&str, u8)> = vec![("U", 0), ("U", 1), ("U", 2), ("U", 3), ("M", 0), ("M", 1), ("M", 2), ("M", 3)];
    let kinds: Vec<&str> = if thorough { KINDS.to_vec() } else { KINDS.to_vec() };
    for (ki, kind) in kinds.iter().enumerate() {
        let n = letters.len().pow(maxlen as u32);
        // quick tier: a deterministic sample of the sequences of full length, different per contract
        let stride = if thorough { 1 } else { 5 };
        let mut code = (ki * 3) % stride.max(1);
        while code < n {
            for transfer in [false, true] {
                if transfer && (code / stride) % 3 != 0 {
                    continue;
                }
                run.scenario("up", &format!("c15-{kind}-{code}-{transfer}"));
                run.op("time 1000 10", "time");
                run.op(&format!("up.new {}", owner.tok()), "construct");
                let mut cur_owner = owner.clone();
                if transfer {
                    run.op(&format!("up.transfer_ownership {kind} {} {}", new_owner.tok(), owner.tok()), "transfer");
                    cur_owner = new_owner.clone();
                }
                let mut c = code;
                for _ in 0..maxlen {
                    let (what, who) = letters[c % letters.len()];
                    c /= letters.len();
                    let (au, acl) = match who {
                        0 => (cur_owner.tok(), "owner"),
                        1 => (if transfer { owner.tok() } else { new_owner.tok() }, if transfer { "former-owner" } else { "future-owner" }),
                        2 => (stranger.tok(), "stranger"),
                        _ => ("-".to_string(), "nobody"),
                    };
                    if what == "U" {
                        let hk = if kind == &"dummy" { "dummy" } else { "self" };
                        run.op(&format!("up.upgrade {kind} {hk} {au}"), &format!("upgrade-{acl}"));
                    } else {
                        let data = if kind == &"dummy" { format!("[s{}]", hx(b"migrated")) } else { "[v]".to_string() };
                        run.op(&format!("up.migrate {kind} {data} {au}"), &format!("migrate-{acl}"));
                    }
                    run.op(&format!("up.flag {kind}"), "q");
                    run.op(&format!("up.version {kind}"), "q");
                    run.op(&format!("up.data {kind}"), "q");
                    run.op(&format!("up.owner {kind}"), "q");
                }
            }
            code += stride;
        }
    }
    // ---- (a2) ownership moves WHILE the migration window is open: the migration belongs to the CURRENT owner
    for kind in KINDS.iter() {
        for first_former in [true, false] {
            run.scenario("up", &format!("c15-transfer-in-window-{kind}-{first_former}"));
            run.op("time 1000 10", "time");
            run.op(&format!("up.new {}", owner.tok()), "construct");
            let hk = if kind == &"dummy" { "dummy" } else { "self" };
            run.op(&format!("up.upgrade {kind} {hk} {}", owner.tok()), "upgrade-owner");
            run.op(&format!("up.transfer_ownership {kind} {} {}", new_owner.tok(), owner.tok()), "transfer-in-window");
            run.op(&format!("up.owner {kind}"), "q");
            let data = if kind == &"dummy" { format!("[s{}]", hx(b"migrated")) } else { "[v]".to_string() };
            let order = if first_former { [(&owner, "former-owner"), (&new_owner, "owner")] } else { [(&new_owner, "owner"), (&owner, "former-owner")] };
            for (who, acl) in order {
                run.op(&format!("up.migrate {kind} {data} {}", who.tok()), &format!("migrate-in-window-{acl}"));
                run.op(&format!("up.flag {kind}"), "q");
                run.op(&format!("up.version {kind}"), "q");
                run.op(&format!("up.data {kind}"), "q");
            }
        }
    }
    // ---- (a') a contract that OWNS ITSELF (ownership handed to its own address: nobody can sign for it from outside): every
    //          upgrade / migrate attempt by nobody, a stranger or the former owner is refused like any other unauthorised one
    for (i, kind) in KINDS.iter().enumerate() {
        if kind == &"dummy" {
            continue;
        }
        run.scenario("up", &format!("c15-self-owned-{kind}"));
        run.op("time 1000 10", "time");
        run.op(&format!("up.new {}", owner.tok()), "construct");
        let me = Addr::c(170 + i as u8);
        run.op(&format!("up.transfer_ownership {kind} {} {}", me.tok(), owner.tok()), "transfer-ownership-to-the-contract-itself");
        for (au, acl) in [("-".to_string(), "nobody"), (stranger.tok(), "stranger"), (owner.tok(), "former-owner")] {
            run.op(&format!("up.upgrade {kind} self {au}"), &format!("upgrade-self-owned-{acl}"));
            run.op(&format!("up.flag {kind}"), "q");
            run.op(&format!("up.migrate {kind} [v] {au}"), &format!("migrate-self-owned-{acl}"));
            run.op(&format!("up.version {kind}"), "q");
        }
    }
    // ---- (b) other hashes and ill-typed migration data on the direct entry points
    for kind in KINDS.iter() {
        run.scenario("up", &format!("c15-misc-{kind}"));
        run.op("time 1000 10", "time");
        run.op(&format!("up.new {}", owner.tok()), "construct");
        run.op(&format!("up.upgrade {kind} bogus {}", owner.tok()), "upgrade-bogus-hash");
        run.op(&format!("up.flag {kind}"), "q");
        run.op(&format!("up.migrate {kind} [u7] {}", owner.tok()), "migrate-illtyped-before");
        let hk = if kind == &"dummy" { "dummy" } else { "self" };
        run.op(&format!("up.upgrade {kind} {hk} {}!", owner.tok()), "upgrade-owner-other-args");
        run.op(&format!("up.upgrade {kind} {hk} {}", owner.tok()), "upgrade-owner");
        run.op(&format!("up.migrate {kind} [u7] {}", owner.tok()), "migrate-illtyped");
        run.op(&format!("up.migrate {kind} [] {}", owner.tok()), "migrate-noargs");
        run.op(&format!("up.flag {kind}"), "q");
        let data = if kind == &"dummy" { format!("[s{}]", hx(b"x")) } else { "[v]".to_string() };
        run.op(&format!("up.migrate {kind} {data} {}!", owner.tok()), "migrate-owner-other-args");
        run.op(&format!("up.migrate {kind} {data} {}", owner.tok()), "migrate-owner");
        run.op(&format!("up.migrate {kind} {data} {}", owner.tok()), "migrate-owner-again");
        run.op(&format!("up.flag {kind}"), "q");
        run.op(&format!("up.data {kind}"), "q");
        if kind != &"dummy" {
            // a production contract switched to foreign code (dummy.wasm): version and migrate now follow that code
            run.op(&format!("up.upgrade {kind} dummy {}", owner.tok()), "upgrade-to-foreign-code");
            run.op(&format!("up.version {kind}"), "q");
            run.op(&format!("up.flag {kind}"), "q");
            run.op(&format!("up.migrate {kind} [s{}] {}", hx(b"y"), owner.tok()), "migrate-foreign-code");
            run.op(&format!("up.migrate {kind} [s{}] {}", hx(b"z"), stranger.tok()), "migrate-foreign-code-stranger");
            run.op(&format!("up.data {kind}"), "q");
            run.op(&format!("up.flag {kind}"), "q");
        }
    }
    // ---- (c) Upgrader: requested version x authorisation coverage x migration data x target
    // requested versions: the old one, the one the new code reports, and wrong ones that sort ABOVE it, BELOW it (between old
    // and new), as a PREFIX of it and as an extension of it
    let versions: Vec<(&str, Vec<u8>)> = vec![
        ("same", b"0.1.0".to_vec()),
        ("correct", b"0.2.0".to_vec()),
        ("wrong", b"0.3.0".to_vec()),
        ("wrong-between", b"0.1.5".to_vec()),
        ("wrong-prefix", b"0.2".to_vec()),
        ("wrong-extension", b"0.2.0.1".to_vec()),
        ("wrong-empty", b"".to_vec()),
    ];
    let auths: Vec<(&str, String)> = vec![
        ("both", format!("{}:both", owner.tok())),
        ("upgrade-only", format!("{}:up", owner.tok())),
        ("migrate-only", format!("{}:mig", owner.tok())),
        ("none", "-".to_string()),
        ("wrong-principal", format!("{}:both", stranger.tok())),
        ("split-principals", format!("{}:up,{}:mig", owner.tok(), stranger.tok())),
    ];
    let datas: Vec<(&str, String)> = vec![("string", format!("[s{}]", hx(b"new-data"))), ("u32", "[u5]".to_string()), ("unit", "[v]".to_string()), ("noargs", "[]".to_string())];
    let targets: Vec<(&str, &str)> = vec![("dummy", "dummy"), ("gw", "self"), ("op", "self"), ("tk", "dummy")];
    for (tk, hk) in &targets {
        for (vn, v) in &versions {
            for (an, au) in &auths {
                for (dn, d) in &datas {
                    if *tk != "dummy" && !thorough && rng.chance(2, 3) {
                        continue;
                    }
                    run.scenario("up", &format!("c15-upgrader-{tk}-{vn}-{an}-{dn}"));
                    run.op("time 1000 10", "time");
                    run.op(&format!("up.new {}", owner.tok()), "construct");
                    run.op(&format!("up.upgrader {tk} {} {hk} {d} {au}", hx(v)), &format!("upgrader-{tk}-{vn}-{an}-{dn}"));
                    run.op(&format!("up.version {tk}"), "q");
                    run.op(&format!("up.flag {tk}"), "q");
                    run.op(&format!("up.data {tk}"), "q");
                    run.op(&format!("up.owner {tk}"), "q");
                    // a second attempt after the first (atomicity: the first failure must have left a usable target)
                    run.op(&format!("up.upgrader {tk} {} {hk} [s{}] {}:both", hx(b"0.2.0"), hx(b"second"), owner.tok()), "upgrader-second-attempt");
                    run.op(&format!("up.version {tk}"), "q");
                    run.op(&format!("up.flag {tk}"), "q");
                    run.op(&format!("up.data {tk}"), "q");
                }
            }
        }
    }
}
