//! Authorisation matrices (C06: administrative entry points x principals x role-transfer histories;
//! C07: debiting entry points x who authorises x allowance states).  Scenarios span all worlds.
#![allow(dead_code)]
use crate::common::*;
use crate::gw::*;
use crate::gwgen::G;
use crate::Run;

const OWNER0: u8 = 1;
const OPER0: u8 = 2;
const NEWOWNER: u8 = 3;
const THIRD: u8 = 4;
const STRANGER: u8 = 99;

/// role-transfer histories for a role currently held by `h0`: returns the ops' new-holder sequence
fn histories() -> Vec<(&'static str, Vec<u8>)> {
    vec![
        ("none", vec![]),
        ("one-transfer", vec![NEWOWNER]),
        ("to-self", vec![OWNER0]),
        ("away-and-back", vec![NEWOWNER, OWNER0]),
        ("two-hops", vec![NEWOWNER, THIRD]),
        // one transfer, and the rightful call is made under a BLANKET authorisation (every address authorises whatever is
        // asked of it) instead of the holder's exact one
        ("everyone", vec![NEWOWNER]),
    ]
}

struct Roles {
    holder: Addr,
    former: Option<Addr>,
    /// the rightful call is made under `*` (everybody authorises) instead of the holder's exact authorisation
    blanket: bool,
}

/// the principal classes of C06 for a role with current `holder`
fn principals(r: &Roles, other_role: &Addr, beneficiary: &Addr) -> Vec<(String, String)> {
    let mut v = vec![
        (r.holder.tok(), "current-holder".to_string()),
        (format!("{}!", r.holder.tok()), "holder-other-args".to_string()),
        (other_role.tok(), if *other_role == r.holder { "current-holder".into() } else { "other-role-holder".to_string() }),
        (beneficiary.tok(), if *beneficiary == r.holder { "current-holder".into() } else { "beneficiary".to_string() }),
        (Addr::c(STRANGER).tok(), "stranger".to_string()),
        ("-".to_string(), "nobody".to_string()),
    ];
    if let Some(f) = &r.former {
        if *f != r.holder {
            v.push((f.tok(), "former-holder".to_string()));
        }
    }
    // everybody who must be refused comes FIRST, while the operation's other preconditions still hold (after the holder's
    // own successful call a repeated attempt often fails for an unrelated reason — "already set", "window closed" — which
    // would hide a missing authorisation check); the rightful holder's call comes last
    let h = r.holder.tok();
    let (mut refused, rightful): (Vec<_>, Vec<_>) = v.into_iter().partition(|(a, _)| *a != h);
    if r.blanket {
        refused.push(("*".to_string(), "everyone".to_string()));
    } else {
        refused.extend(rightful);
    }
    refused
}

pub fn gen_c06(run: &mut Run, seed: u64, thorough: bool) {
    let mut rng = Rng::new(seed);
    let hists = histories();
    let owner0 = Addr::c(OWNER0);
    let bene = Addr::c(THIRD);
    // ---------------- token (owner role; minters) ----------------
    for (hname, hops) in &hists {
        run.scenario("tk", &format!("c06-tk-{hname}"));
        let maxlive: u32 = new_env().storage().max_ttl();
        run.op("time 1000 100", "time");
        let tk = Addr::c(200);
        run.op(&format!("tk.new {} {} - {} {} {} 7 {maxlive}", tk.tok(), owner0.tok(), hex::encode([7u8; 32]), hx(b"T"), hx(b"T")), "construct");
        let mut roles = Roles { holder: owner0.clone(), former: None, blanket: *hname == "everyone" };
        for n in hops {
            let new = Addr::c(*n);
            let o = run.op(&format!("tk.transfer_ownership {} {}", new.tok(), roles.holder.tok()), "history-transfer");
            if o.starts_with("ok") {
                roles.former = Some(roles.holder.clone());
                roles.holder = new;
            }
        }
        // the owner must be a minter for `mint`: make that true in half the histories
        if hops.len() % 2 == 1 {
            run.op(&format!("tk.add_minter {} {}", roles.holder.tok(), roles.holder.tok()), "history-add-minter");
        }
        let minter = Addr::c(OPER0);
        run.op(&format!("tk.add_minter {} {}", minter.tok(), roles.holder.tok()), "history-add-minter");
        for (ep, args) in [
            ("tk.add_minter", bene.tok()),
            ("tk.remove_minter", minter.tok()),
            ("tk.mint", format!("{} 5", bene.tok())),
            ("tk.transfer_ownership", bene.tok()),
            ("tk.set_admin", bene.tok()),
        ] {
            for (au, pc) in principals(&roles, &minter, &bene) {
                let o = run.op(&format!("{ep} {args} {au}"), &format!("{}-{pc}-{hname}", &ep[3..]));
                if o.starts_with("ok") && (ep == "tk.transfer_ownership" || ep == "tk.set_admin") {
                    roles.former = Some(roles.holder.clone());
                    roles.holder = bene.clone();
                }
                for q in ["tk.owner".to_string(), format!("tk.is_minter {}", bene.tok()), format!("tk.is_minter {}", minter.tok()), format!("tk.balance {}", bene.tok())] {
                    run.op(&q, "q");
                }
            }
        }
    }
    // ---------------- operators ----------------
    for (hname, hops) in &hists {
        run.scenario("op", &format!("c06-op-{hname}"));
        run.op("time 1000 10", "time");
        run.op(&format!("op.new {} {} {}", Addr::c(160).tok(), owner0.tok(), Addr::c(161).tok()), "construct");
        let mut roles = Roles { holder: owner0.clone(), former: None, blanket: *hname == "everyone" };
        for n in hops {
            let new = Addr::c(*n);
            let o = run.op(&format!("op.transfer_ownership {} {}", new.tok(), roles.holder.tok()), "history-transfer");
            if o.starts_with("ok") {
                roles.former = Some(roles.holder.clone());
                roles.holder = new;
            }
        }
        let member = Addr::c(OPER0);
        run.op(&format!("op.add {} {}", member.tok(), roles.holder.tok()), "history-add");
        for (ep, args) in [("op.add", bene.tok()), ("op.remove", member.tok()), ("op.transfer_ownership", bene.tok())] {
            for (au, pc) in principals(&roles, &member, &bene) {
                let o = run.op(&format!("{ep} {args} {au}"), &format!("{}-{pc}-{hname}", &ep[3..]));
                if o.starts_with("ok") && ep == "op.transfer_ownership" {
                    roles.former = Some(roles.holder.clone());
                    roles.holder = bene.clone();
                }
                for q in ["op.owner".to_string(), format!("op.is_operator {}", bene.tok()), format!("op.is_operator {}", member.tok())] {
                    run.op(&q, "q");
                }
            }
        }
    }
    // ---------------- gas service (owner; collector) ----------------
    // ---------------- every ownable contract: a transfer to the all-zero ACCOUNT address (the library's ZERO_ADDRESS) really
    //                  moves the role there — the previous holder is out ----------------
    {
        let zero = Addr { contract: false, id: [0u8; 32] };
        for kind in crate::up::KINDS.iter() {
            run.scenario("up", &format!("c06-up-{kind}-to-zero-address"));
            run.op("time 1000 10", "time");
            run.op(&format!("up.new {}", owner0.tok()), "construct");
            run.op(&format!("up.transfer_ownership {kind} {} {}", zero.tok(), owner0.tok()), "transfer-to-zero-address");
            run.op(&format!("up.owner {kind}"), "q");
            run.op(&format!("up.transfer_ownership {kind} {} {}", bene.tok(), owner0.tok()), "transfer-by-former-holder-after-zero");
            let hk = if kind == &"dummy" { "dummy" } else { "self" };
            run.op(&format!("up.upgrade {kind} {hk} {}", owner0.tok()), "upgrade-by-former-holder-after-zero");
            run.op(&format!("up.owner {kind}"), "q");
            run.op(&format!("up.flag {kind}"), "q");
        }
    }
    // (also with ONE address holding both roles at construction: ownership then moves, the collector role must not follow)
    for (same, (hname, hops)) in [false, true].into_iter().flat_map(|b| hists.iter().map(move |h| (b, h))) {
        let hname = &if same { format!("{hname}-one-address-both-roles") } else { hname.to_string() };
        run.scenario("gs", &format!("c06-gs-{hname}"));
        run.op("time 1000 10", "time");
        let gs = Addr::c(150);
        let collector = if same { owner0.clone() } else { Addr::c(OPER0) };
        run.op(&format!("gs.new {} {} {}", gs.tok(), owner0.tok(), collector.tok()), "construct");
        let o = run.op(&format!("sac.new {}", Addr::c(5).tok()), "env-token");
        let tok = Addr::parse(o.split(' ').nth(1).unwrap());
        let spender = Addr::c(10);
        run.op(&format!("sac.mint {} {} 500", tok.tok(), spender.tok()), "env-mint");
        run.op(&format!("gs.pay_gas {} {} {} {} {} {} 200 - {}", Addr::c(30).tok(), hx(b"eth"), hx(b"0x"), hx(b"p"), spender.tok(), tok.tok(), spender.tok()), "history-pay");
        let mut roles = Roles { holder: owner0.clone(), former: None, blanket: *hname == "everyone" };
        for n in hops {
            let new = Addr::c(*n);
            let o = run.op(&format!("gs.transfer_ownership {} {}", new.tok(), roles.holder.tok()), "history-transfer");
            if o.starts_with("ok") {
                roles.former = Some(roles.holder.clone());
                roles.holder = new;
            }
        }
        let croles = Roles { holder: collector.clone(), former: None, blanket: *hname == "everyone" };
        for (ep, args, who_is_holder) in [
            ("gs.collect_fees", format!("{} {} 3", bene.tok(), tok.tok()), "collector"),
            ("gs.refund", format!("{} {} {} 2", hx(b"m"), bene.tok(), tok.tok()), "collector"),
            ("gs.transfer_ownership", bene.tok(), "owner"),
        ] {
            let ps = if who_is_holder == "collector" { principals(&croles, &roles.holder, &bene) } else { principals(&roles, &collector, &bene) };
            for (au, pc) in ps {
                let o = run.op(&format!("{ep} {args} {au}"), &format!("{}-{pc}-{hname}", &ep[3..]));
                if o.starts_with("ok") && ep == "gs.transfer_ownership" {
                    roles.former = Some(roles.holder.clone());
                    roles.holder = bene.clone();
                }
                for q in ["gs.owner".to_string(), "gs.collector".to_string(), format!("sac.balance {} {}", tok.tok(), gs.tok()), format!("sac.balance {} {}", tok.tok(), bene.tok())] {
                    run.op(&q, "q");
                }
            }
        }
    }
    // ---------------- gateway (owner, operator; bypass rotation) ----------------
    {
        let mut g = G::new(run, seed);
        for (hname, hops) in &hists {
            let ws = g.mk_set(2, 0, 2);
            g.new_gateway(&format!("c06-gw-{hname}"), vec![ws.clone()], 2, 1000);
            // histories on the OPERATOR role (the one guarding the bypass), and one owner transfer
            let mut oroles = Roles { holder: g.operator.clone(), former: None, blanket: *hname == "everyone" };
            for n in hops {
                let new = Addr::c(if *n == OWNER0 { OPER0 } else { *n });
                let o = g.run.op(&format!("gw.transfer_operatorship {} {}", new.tok(), oroles.holder.tok()), "history-transfer");
                if o.starts_with("ok") {
                    oroles.former = Some(oroles.holder.clone());
                    oroles.holder = new;
                }
            }
            let owner = g.owner.clone();
            let mut wroles = Roles { holder: owner.clone(), former: None, blanket: *hname == "everyone" };
            // bypass rotation under every principal (delay 1000 and no time passing: only the bypass can succeed)
            for (au, pc) in principals(&oroles, &owner, &bene) {
                let cand = g.mk_set(2, 0, 2);
                let latest = g.sets.last().unwrap().clone();
                let pf = g.honest(&latest, &cand.rotation_data_hash(&g.env));
                let auth = AuthSpec::parse(&au);
                g.rotate(&cand, &pf, true, &auth, &format!("rotate-bypass-{pc}-{hname}"));
                g.run.op("gw.epoch", "q");
            }
            // the same with a proof from an OLDER, still retained set: who may bypass must not depend on which set signed
            for (au, pc) in principals(&oroles, &owner, &bene) {
                if g.sets.len() < 2 {
                    break;
                }
                let cand = g.mk_set(2, 0, 2);
                let older = g.sets[g.sets.len() - 2].clone();
                let pf = g.honest(&older, &cand.rotation_data_hash(&g.env));
                let auth = AuthSpec::parse(&au);
                g.rotate(&cand, &pf, true, &auth, &format!("rotate-bypass-older-set-{pc}-{hname}"));
                g.run.op("gw.epoch", "q");
            }
            // the operator's authorisation covers ONE call: after a bypass (made once the delay has elapsed, so that it is the
            // bypass that restarts the clock) nobody can follow up with a plain rotation inside the new delay window
            {
                let t = g.now + 1000;
                g.set_time(t);
                let cand = g.mk_set(2, 0, 2);
                let latest = g.sets.last().unwrap().clone();
                let pf = g.honest(&latest, &cand.rotation_data_hash(&g.env));
                g.rotate(&cand, &pf, true, &AuthSpec::exact(&[oroles.holder.clone()]), &format!("rotate-bypass-after-delay-current-holder-{hname}"));
                let t = g.now + 1;
                g.set_time(t);
                let cand2 = g.mk_set(2, 0, 2);
                let latest = g.sets.last().unwrap().clone();
                let pf2 = g.honest(&latest, &cand2.rotation_data_hash(&g.env));
                g.rotate(&cand2, &pf2, false, &AuthSpec::None, &format!("rotate-plain-right-after-bypass-nobody-{hname}"));
                g.run.op("gw.epoch", "q");
            }
            // … and the same when the bypass comes INSIDE the window: plain rotation (clock = t), bypass at t + 500 (clock moves),
            // then nobody's plain rotation at t + 1000 — past the old boundary, before the new one
            {
                let t = g.now + 1000;
                g.set_time(t);
                let cand = g.mk_set(2, 0, 2);
                g.rotate_honest(&cand, &format!("rotate-plain-at-boundary-{hname}"));
                g.set_time(t + 500);
                let cand = g.mk_set(2, 0, 2);
                let latest = g.sets.last().unwrap().clone();
                let pf = g.honest(&latest, &cand.rotation_data_hash(&g.env));
                g.rotate(&cand, &pf, true, &AuthSpec::exact(&[oroles.holder.clone()]), &format!("rotate-bypass-inside-window-current-holder-{hname}"));
                g.set_time(t + 1000);
                let cand2 = g.mk_set(2, 0, 2);
                let latest = g.sets.last().unwrap().clone();
                let pf2 = g.honest(&latest, &cand2.rotation_data_hash(&g.env));
                g.rotate(&cand2, &pf2, false, &AuthSpec::None, &format!("rotate-plain-past-old-boundary-nobody-{hname}"));
                g.run.op("gw.epoch", "q");
            }
            for (ep, role_is_owner) in [("gw.transfer_operatorship", false), ("gw.transfer_ownership", true)] {
                let ps = if role_is_owner { principals(&wroles, &oroles.holder, &bene) } else { principals(&oroles, &wroles.holder, &bene) };
                for (au, pc) in ps {
                    let o = g.run.op(&format!("{ep} {} {au}", bene.tok()), &format!("{}-{pc}-{hname}", &ep[3..]));
                    if o.starts_with("ok") {
                        if role_is_owner {
                            wroles.former = Some(wroles.holder.clone());
                            wroles.holder = bene.clone();
                        } else {
                            oroles.former = Some(oroles.holder.clone());
                            oroles.holder = bene.clone();
                        }
                    }
                    g.run.op("gw.owner", "q");
                    g.run.op("gw.operator", "q");
                }
            }
        }
    }
    // ---------------- ITS (owner; trusted chains) ----------------
    {
        let mut i = crate::itsgen::I::new(run, seed);
        for (hname, hops) in &hists {
            i.setup(&format!("c06-its-{hname}"));
            let mut roles = Roles { holder: i.owner.clone(), former: None, blanket: *hname == "everyone" };
            for n in hops {
                let new = Addr::c(*n);
                let o = i.op(&format!("its.transfer_ownership {} {}", new.tok(), roles.holder.tok()), "history-transfer");
                if o.starts_with("ok") {
                    roles.former = Some(roles.holder.clone());
                    roles.holder = new;
                }
            }
            let other = Addr::c(OPER0);
            for (ep, args) in [
                ("its.set_trusted", hx(b"polygon")),
                ("its.remove_trusted", hx(b"ethereum")),
                ("its.transfer_ownership", bene.tok()),
            ] {
                for (au, pc) in principals(&roles, &other, &bene) {
                    let o = i.op(&format!("{ep} {args} {au}"), &format!("{}-{pc}-{hname}", &ep[4..]));
                    if o.starts_with("ok") && ep == "its.transfer_ownership" {
                        roles.former = Some(roles.holder.clone());
                        roles.holder = bene.clone();
                    }
                    for q in ["its.owner".to_string(), format!("its.is_trusted {}", hx(b"polygon")), format!("its.is_trusted {}", hx(b"ethereum"))] {
                        i.op(&q, "q");
                    }
                }
            }
        }
    }
    // ---------------- upgrade / migrate on every upgradable contract ----------------
    for kind in crate::up::KINDS.iter() {
        for (hname, hops) in &hists {
            if !thorough && (*hname == "two-hops" || *hname == "to-self") && *kind != "gw" {
                continue;
            }
            run.scenario("up", &format!("c06-up-{kind}-{hname}"));
            run.op("time 1000 10", "time");
            run.op(&format!("up.new {}", owner0.tok()), "construct");
            let mut roles = Roles { holder: owner0.clone(), former: None, blanket: *hname == "everyone" };
            for n in hops {
                let new = Addr::c(*n);
                let o = run.op(&format!("up.transfer_ownership {kind} {} {}", new.tok(), roles.holder.tok()), "history-transfer");
                if o.starts_with("ok") {
                    roles.former = Some(roles.holder.clone());
                    roles.holder = new;
                }
            }
            let other = Addr::c(OPER0);
            let hk = if *kind == "dummy" { "dummy" } else { "self" };
            let data = if *kind == "dummy" { format!("[s{}]", hx(b"d")) } else { "[v]".to_string() };
            // upgrade under every principal, then migrate under every principal (holder last so that the refusals see an open window)
            let mut ps = principals(&roles, &other, &bene);
            ps.rotate_left(2);
            for (au, pc) in &ps {
                run.op(&format!("up.upgrade {kind} {hk} {au}"), &format!("upgrade-{pc}-{hname}"));
                run.op(&format!("up.flag {kind}"), "q");
            }
            for (au, pc) in &ps {
                run.op(&format!("up.migrate {kind} {data} {au}"), &format!("migrate-{pc}-{hname}"));
                run.op(&format!("up.flag {kind}"), "q");
                run.op(&format!("up.data {kind}"), "q");
            }
            run.op(&format!("up.owner {kind}"), "q");
            let _ = rng.next();
        }
    }
}

// ------------------------------------------------------------------------------------------------
pub fn gen_c07(run: &mut Run, seed: u64, thorough: bool) {
    let subject = Addr::c(10);
    let counter = Addr::c(11);
    let owner0 = Addr::c(OWNER0);
    let stranger = Addr::c(STRANGER);
    let who = |right: &Addr, cp: &Addr, owner: &Addr| -> Vec<(String, &'static str)> {
        // refused principals first, the rightful one last (see `principals`)
        vec![
            (cp.tok(), "counterparty"),
            (owner.tok(), "contract-owner"),
            (stranger.tok(), "stranger"),
            ("-".to_string(), "nobody"),
            (format!("{}!", right.tok()), "named-address-other-args"),
            (format!("{},{}", cp.tok(), owner.tok()), "counterparty-and-owner"),
            (right.tok(), "named-address"),
            ("*".to_string(), "everyone"),
        ]
    };
    // ---------------- token: with and without allowances ----------------
    for variant in 0..4 {
        let allowance = variant >= 1 && variant <= 2;
        let st = ["no-allowance", "with-allowance", "revoked-allowance", "expired-allowance"][variant];
        run.scenario("tk", &format!("c07-tk-{st}"));
        let maxlive: u32 = new_env().storage().max_ttl();
        run.op("time 1000 100", "time");
        let tk = Addr::c(200);
        run.op(&format!("tk.new {} {} {} {} {} {} 7 {maxlive}", tk.tok(), owner0.tok(), Addr::c(OPER0).tok(), hex::encode([7u8; 32]), hx(b"T"), hx(b"T")), "construct");
        run.op(&format!("tk.mint_from {} {} 1000 {}", owner0.tok(), subject.tok(), owner0.tok()), "setup-mint");
        run.op(&format!("tk.mint_from {} {} 1000 {}", owner0.tok(), counter.tok(), owner0.tok()), "setup-mint");
        if allowance {
            run.op(&format!("tk.approve {} {} 300 500 {}", subject.tok(), counter.tok(), subject.tok()), "setup-approve");
            run.op(&format!("tk.approve {} {} 300 500 {}", subject.tok(), stranger.tok(), subject.tok()), "setup-approve");
        }
        if variant == 3 {
            // short-lived allowances of EXACTLY the amounts tried below, expiring at ledger 105 (the entry itself lives longer
            // in storage); then the ledger moves past the expiration: the authorisation has lapsed
            run.op(&format!("tk.approve {} {} 10 105 {}", subject.tok(), counter.tok(), subject.tok()), "setup-approve-short");
            run.op(&format!("tk.approve {} {} 10 105 {}", subject.tok(), stranger.tok(), subject.tok()), "setup-approve-short");
            run.op("time 1000 105", "time");
            run.op(&format!("tk.allowance {} {}", subject.tok(), counter.tok()), "q");
            run.op("time 1000 106", "time");
        }
        if variant == 2 {
            // the usual ways of revoking: amount 0 with an expiration in the past / at ledger 0 / still in the future
            run.op(&format!("tk.approve {} {} 0 0 {}", subject.tok(), counter.tok(), subject.tok()), "revoke-expiration-0");
            run.op(&format!("tk.approve {} {} 0 99 {}", subject.tok(), stranger.tok(), subject.tok()), "revoke-expiration-past");
        }
        let qs = |run: &mut Run| {
            for a in [&subject, &counter, &stranger] {
                run.op(&format!("tk.balance {}", a.tok()), "q");
            }
            run.op(&format!("tk.allowance {} {}", subject.tok(), counter.tok()), "q");
            run.op(&format!("tk.allowance {} {}", subject.tok(), stranger.tok()), "q");
        };
        // entry point, args, the address whose authorisation is required
        let minter = Addr::c(OPER0);
        let eps: Vec<(&str, String, Addr)> = vec![
            ("tk.approve", format!("{} {} 50 600", subject.tok(), counter.tok()), subject.clone()),
            ("tk.transfer", format!("{} {} 10", subject.tok(), counter.tok()), subject.clone()),
            ("tk.transfer_from", format!("{} {} {} 10", counter.tok(), subject.tok(), counter.tok()), counter.clone()),
            ("tk.transfer_from", format!("{} {} {} 10", stranger.tok(), subject.tok(), stranger.tok()), stranger.clone()),
            ("tk.burn", format!("{} 10", subject.tok()), subject.clone()),
            ("tk.burn_from", format!("{} {} 10", counter.tok(), subject.tok()), counter.clone()),
            ("tk.mint_from", format!("{} {} 10", minter.tok(), subject.tok()), minter.clone()),
        ];
        // crediting a NEGATIVE amount would be a debit of the recipient without its authorisation: every amount-carrying
        // entry point must refuse negative amounts even under the right principal's authorisation
        for (ep, args, right) in [
            ("tk.mint_from", format!("{} {} -10", minter.tok(), subject.tok()), minter.clone()),
            ("tk.mint", format!("{} -10", subject.tok()), owner0.clone()),
            ("tk.transfer", format!("{} {} -10", counter.tok(), subject.tok()), counter.clone()),
            ("tk.transfer_from", format!("{} {} {} -10", counter.tok(), counter.tok(), subject.tok()), counter.clone()),
            ("tk.burn", format!("{} -10", subject.tok()), subject.clone()),
            ("tk.burn_from", format!("{} {} -10", counter.tok(), subject.tok()), counter.clone()),
            ("tk.approve", format!("{} {} -10 600", subject.tok(), counter.tok()), subject.clone()),
        ] {
            run.op(&format!("{ep} {args} {}", right.tok()), &format!("{}-negative-amount-{st}", &ep[3..]));
            qs(run);
        }
        // privileged spenders get no shortcut: the token owner and a designated minter need an allowance from the holder
        // like anybody else (their own authorisation is not the holder's)
        for (sp, spn) in [(owner0.clone(), "owner"), (minter.clone(), "minter")] {
            run.op(&format!("tk.burn_from {} {} 10 {}", sp.tok(), subject.tok(), sp.tok()), &format!("burn_from-by-{spn}-without-allowance-{st}"));
            qs(run);
            run.op(&format!("tk.transfer_from {} {} {} 10 {}", sp.tok(), subject.tok(), sp.tok(), sp.tok()), &format!("transfer_from-by-{spn}-without-allowance-{st}"));
            qs(run);
            run.op(&format!("tk.burn_from {} {} 10 {},{}", sp.tok(), counter.tok(), sp.tok(), owner0.tok()), &format!("burn_from-by-{spn}-of-third-party-{st}"));
            qs(run);
            run.op(&format!("tk.balance {}", sp.tok()), "q");
        }
        for (ep, args, right) in &eps {
            let cp = if *right == subject { counter.clone() } else { subject.clone() };
            for (au, cl) in who(right, &cp, &owner0) {
                if (*right == stranger) && cl == "stranger" {
                    continue;
                }
                run.op(&format!("{ep} {args} {au}"), &format!("{}-{cl}-{st}", &ep[3..]));
                qs(run);
            }
        }
    }
    // ---------------- gas service: pay / add ----------------
    {
        run.scenario("gs", "c07-gs");
        run.op("time 1000 10", "time");
        let gs = Addr::c(150);
        run.op(&format!("gs.new {} {} {}", gs.tok(), owner0.tok(), Addr::c(OPER0).tok()), "construct");
        let o = run.op(&format!("sac.new {}", Addr::c(5).tok()), "env-token");
        let tok = Addr::parse(o.split(' ').nth(1).unwrap());
        run.op(&format!("sac.mint {} {} 500", tok.tok(), subject.tok()), "env-mint");
        let sender = counter.clone();
        for (ep, args) in [
            ("gs.pay_gas", format!("{} {} {} {} {} {} 7 -", sender.tok(), hx(b"eth"), hx(b"0x"), hx(b"payload"), subject.tok(), tok.tok())),
            ("gs.add_gas", format!("{} {} {} {} 7", sender.tok(), hx(b"msg"), subject.tok(), tok.tok())),
        ] {
            let mut ws = who(&subject, &sender, &owner0);
            ws.push((format!("{}~", subject.tok()), "named-address-root-only"));
            ws.push((Addr::c(OPER0).tok(), "gas-collector"));
            for (au, cl) in ws {
                run.op(&format!("{ep} {args} {au}"), &format!("{}-{cl}", &ep[3..]));
                run.op(&format!("sac.balance {} {}", tok.tok(), subject.tok()), "q");
                run.op(&format!("sac.balance {} {}", tok.tok(), gs.tok()), "q");
            }
        }
        // the SERVICE ITSELF named as spender (it holds what was paid in above): nobody can authorise that from outside
        for (ep, args) in [
            ("gs.pay_gas", format!("{} {} {} {} {} {} 7 -", sender.tok(), hx(b"eth"), hx(b"0x"), hx(b"payload"), gs.tok(), tok.tok())),
            ("gs.add_gas", format!("{} {} {} {} 7", sender.tok(), hx(b"msg"), gs.tok(), tok.tok())),
            ("gs.add_gas", format!("{} {} {} {} 14", sender.tok(), hx(b"msg"), gs.tok(), tok.tok())),
        ] {
            for (au, cl) in [("-".to_string(), "nobody"), (sender.tok(), "sender"), (Addr::c(99).tok(), "stranger"), (Addr::c(OPER0).tok(), "gas-collector"), (owner0.tok(), "owner")] {
                run.op(&format!("{ep} {args} {au}"), &format!("{}-service-as-spender-{cl}", &ep[3..]));
                run.op(&format!("sac.balance {} {}", tok.tok(), gs.tok()), "q");
            }
        }
    }
    // ---------------- gateway: call_contract / validate_message ----------------
    {
        let mut g = G::new(run, seed);
        let ws = g.mk_set(2, 0, 2);
        g.new_gateway("c07-gw", vec![ws.clone()], 1, 0);
        let owner = g.owner.clone();
        for (au, cl) in who(&subject, &counter, &owner) {
            g.run.op(&format!("gw.call_contract {} {} {} {} {au}", subject.tok(), hx(b"eth"), hx(b"0xdest"), hx(b"data")), &format!("call_contract-{cl}"));
            // a fresh approval for `subject` as destination, then a consumption attempt under this authorisation
            let mut m = g.fresh_msg();
            m.contract = subject.clone();
            let pf = g.honest(&ws, &approve_data_hash(&g.env, &[m.clone()]));
            g.approve(&[m.clone()], &pf, "setup-approve");
            g.run.op(
                &format!("gw.validate_message {} {} {} {} {} {au}", subject.tok(), hx(&m.chain), hx(&m.id), hx(&m.src), hex::encode(m.ph)),
                &format!("validate_message-{cl}"),
            );
            g.q_msg(&m);
        }
    }
    // ---------------- operators: execute ----------------
    {
        run.scenario("op", "c07-op");
        run.op("time 1000 10", "time");
        let ops = Addr::c(160);
        let probe = Addr::c(161);
        run.op(&format!("op.new {} {} {}", ops.tok(), owner0.tok(), probe.tok()), "construct");
        run.op(&format!("op.add {} {}", subject.tok(), owner0.tok()), "setup-add");
        run.op(&format!("op.add {} {}", counter.tok(), owner0.tok()), "setup-add");
        let mut ws = who(&subject, &counter, &owner0);
        ws.push((probe.tok().replace(&probe.tok(), &stranger.tok()), "stranger-again"));
        for (au, cl) in ws {
            run.op(&format!("op.execute {} {} sum [u1;u2] {au}", subject.tok(), probe.tok()), &format!("execute-{cl}"));
            run.op("probe.count", "q");
        }
    }
    // ---------------- example: send ----------------
    {
        let mut g = G::new(run, seed ^ 7);
        let ws = g.mk_set(2, 0, 2);
        g.run.scenario("ex", "c07-ex");
        g.domain = keccak(b"domain-c07-ex");
        g.set_time(1000);
        let (gwa, o, p) = (g.gwaddr.clone(), g.owner.clone(), g.operator.clone());
        g.run.op(&format!("gw.new {} {} {} {} 0 1 {}", gwa.tok(), o.tok(), p.tok(), hex::encode(g.domain), sets_tok(&[ws.clone()])), "construct");
        g.run.op(&format!("ex.new {} {} {}", Addr::c(180).tok(), Addr::c(181).tok(), Addr::c(182).tok()), "construct-apps");
        let obs = g.run.op(&format!("sac.new {}", Addr::c(5).tok()), "env-token");
        let tok = Addr::parse(obs.split(' ').nth(1).unwrap());
        g.run.op(&format!("sac.mint {} {} 500", tok.tok(), subject.tok()), "env-mint");
        let mut wsx = who(&subject, &counter, &o);
        wsx.push((format!("{}~", subject.tok()), "named-address-root-only"));
        for (au, cl) in wsx {
            g.run.op(&format!("ex.send {} {} {} {} {} 9 {au}", subject.tok(), hx(b"eth"), hx(b"0xdest"), hx(b"hello"), tok.tok()), &format!("send-{cl}"));
            g.run.op(&format!("sac.balance {} {}", tok.tok(), subject.tok()), "q");
            g.run.op(&format!("sac.balance {} {}", tok.tok(), Addr::c(182).tok()), "q");
        }
    }
    // ---------------- ITS: deploy / deploy-remote / transfer (+ payer of the canonical remote deploy) ----------------
    {
        let mut i = crate::itsgen::I::new(run, seed);
        i.setup("c07-its");
        let users = i.users.clone();
        let subject = users[0].clone();
        let counter = users[1].clone();
        let owner = i.owner.clone();
        let (tid, tok_n) = i.deploy(&subject, &[1; 32], b"N", b"N", 6, 400, None, &subject.tok(), "setup-deploy").unwrap();
        let canon = i.new_sac(true);
        let tc = i.register(&canon, "setup-register").unwrap();
        let holders = users.clone();
        let mut n = 1u8;
        let mut ws = who(&subject, &counter, &owner);
        ws.push((format!("{}~", subject.tok()), "named-address-root-only"));
        for (au, cl) in ws {
            n += 1;
            let mut salt = [0u8; 32];
            salt[0] = n;
            if cl != "named-address-root-only" {
                // (a deployment has no sub-invocations on the caller's behalf: "root only" would be the full authorisation)
                i.deploy(&subject, &salt, b"X", b"X", 6, 0, None, &au, &format!("deploy-{cl}"));
                i.deploy(&subject, &salt, b"X", b"X", 6, 50, None, &au, &format!("deploy-with-supply-{cl}"));
            }
            i.op(&format!("its.deploy_remote {} {} {} {} 3 {au}", subject.tok(), hex::encode([1u8; 32]), hx(b"ethereum"), i.gas.tok()), &format!("deploy_remote-{cl}"));
            i.op(&format!("its.deploy_remote_canonical {} {} {} {} 3 {au}", canon.tok(), hx(b"ethereum"), subject.tok(), i.gas.tok()), &format!("deploy_remote_canonical-payer-{cl}"));
            i.op(&format!("its.transfer {} {} {} {} 5 ~ {} 2 {au}", subject.tok(), hex::encode(tid), hx(b"ethereum"), hx(b"0xd"), i.gas.tok()), &format!("transfer-native-{cl}"));
            i.op(&format!("its.transfer {} {} {} {} 5 ~ {} 2 {au}", subject.tok(), hex::encode(tc), hx(b"ethereum"), hx(b"0xd"), i.gas.tok()), &format!("transfer-canonical-{cl}"));
            i.sweep(&holders);
        }
        let _ = (tok_n, thorough);
    }
}
