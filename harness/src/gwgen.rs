//! Generators for the gateway cluster (C01, C02, C03, C08, C09, C13).
//! Every generator is "mostly valid + exactly one deviation"; the class label of each op goes to the
//! distribution report.  The generator keeps its own view of the gateway only to AIM; it never judges.
#![allow(dead_code)]
use crate::common::*;
use crate::gw::*;
use crate::Run;
use soroban_sdk::Env;

pub struct G<'a> {
    pub run: &'a mut Run,
    pub rng: Rng,
    pub env: Env, // used only for the harness's own XDR/hash recipe
    pub domain: [u8; 32],
    pub sets: Vec<WS>, // installed sets, index = epoch-1
    pub retention: u64,
    pub min_delay: u64,
    pub now: u64,
    pub seq: u32,
    pub owner: Addr,
    pub operator: Addr,
    pub gwaddr: Addr,
    pub ctr: u64,
    pub alive: bool,
}

#[derive(Clone, Copy, PartialEq, Debug)]
pub enum SigMode {
    Valid,
    Unsigned,
    OtherKey,
    Flipped,
    OtherMsg, // signed over some other 32 bytes
}

impl<'a> G<'a> {
    pub fn new(run: &'a mut Run, seed: u64) -> Self {
        G {
            run,
            rng: Rng::new(seed),
            env: new_env(),
            domain: [0; 32],
            sets: vec![],
            retention: 0,
            min_delay: 0,
            now: 1000,
            seq: 10,
            owner: Addr::c(1),
            operator: Addr::c(2),
            gwaddr: Addr::c(100),
            ctr: 0,
            alive: false,
        }
    }

    pub fn set_time(&mut self, now: u64) {
        self.now = now;
        self.run.op(&format!("time {} {}", self.now, self.seq), "time");
    }

    pub fn mk_set_from(&mut self, idx: &[usize], weights: &[u128], threshold: u128) -> WS {
        let mut s: Vec<([u8; 32], u128)> = idx.iter().zip(weights.iter()).map(|(i, w)| (pk(*i), *w)).collect();
        s.sort_by(|a, b| a.0.cmp(&b.0));
        let mut nonce = [0u8; 32];
        nonce[..8].copy_from_slice(&self.rng.next().to_be_bytes());
        WS { signers: s, threshold, nonce }
    }

    /// a well-formed random set with n signers
    pub fn mk_set(&mut self, n: usize, wclass: u64, tclass: u64) -> WS {
        let mut idx: Vec<usize> = (0..NKEYS).collect();
        self.rng.shuffle(&mut idx);
        idx.truncate(n);
        let weights: Vec<u128> = (0..n)
            .map(|_| match wclass {
                0 => self.rng.range(1, 9) as u128,
                1 => (1u128 << 64) + self.rng.below(1000) as u128,
                2 => u128::MAX / (n as u128),
                _ => 1,
            })
            .collect();
        let total: u128 = weights.iter().sum();
        let thr = match tclass {
            0 => 1,
            1 => total,
            2 => 1 + (self.rng.next() as u128 % total),
            _ => (total / 2).max(1),
        };
        self.mk_set_from(&idx, &weights, thr)
    }

    pub fn signers_digest(&self, ws: &WS, data_hash: &[u8; 32]) -> Vec<u8> {
        digest(&self.domain, &ws.hash(&self.env), data_hash)
    }

    pub fn proof(&mut self, ws: &WS, msg: &[u8], modes: &[SigMode]) -> Pf {
        let mut out = vec![];
        for (i, (k, w)) in ws.signers.iter().enumerate() {
            let mode = modes.get(i).copied().unwrap_or(SigMode::Unsigned);
            let sig = match mode {
                SigMode::Unsigned => Sig::U,
                SigMode::Valid if key_by_pk(k).is_none() => Sig::U, // keys outside the pool cannot sign
                SigMode::Valid => Sig::S { pk: *k, msg: msg.to_vec(), intact: true },
                _ if key_by_pk(k).is_none() => Sig::U,
                SigMode::Flipped => Sig::S { pk: *k, msg: msg.to_vec(), intact: false },
                SigMode::OtherKey => {
                    let mut other = pk(self.rng.below(NKEYS as u64) as usize);
                    if &other == k {
                        other = pk((0..NKEYS).find(|j| &pk(*j) != k).unwrap());
                    }
                    Sig::S { pk: other, msg: msg.to_vec(), intact: true }
                }
                SigMode::OtherMsg => {
                    let mut m = msg.to_vec();
                    m[0] ^= 0xff;
                    Sig::S { pk: *k, msg: m, intact: true }
                }
            };
            out.push((*k, *w, sig));
        }
        Pf { signers: out, threshold: ws.threshold, nonce: ws.nonce }
    }

    /// minimal honest proof: sign in order until the threshold is reached
    pub fn honest(&mut self, ws: &WS, data_hash: &[u8; 32]) -> Pf {
        let d = self.signers_digest(ws, data_hash);
        let mut modes = vec![];
        let mut t = 0u128;
        for (_, w) in &ws.signers {
            if t < ws.threshold {
                modes.push(SigMode::Valid);
                t = t.saturating_add(*w);
            } else {
                modes.push(SigMode::Unsigned);
            }
        }
        self.proof(ws, &d, &modes)
    }

    pub fn fresh_msg(&mut self) -> Msg {
        self.ctr += 1;
        let payload = self.rng.bytes(self.rng.0 as usize % 5);
        // now and then a chain name / id / sender string of another length class (20, 21, 32, 33, 70, 300 characters)
        let lens = [20usize, 21, 32, 33, 70, 300];
        let mut chain = format!("chain{}", self.ctr % 3).into_bytes();
        let mut id = format!("m{}", self.ctr).into_bytes();
        let mut src = b"0xSrc".to_vec();
        if self.rng.chance(1, 8) {
            chain.resize(*self.rng.pick(&lens), b'c');
        }
        if self.rng.chance(1, 8) {
            id.resize(*self.rng.pick(&lens), b'i');
        }
        if self.rng.chance(1, 8) {
            src.resize(*self.rng.pick(&lens), b's');
        }
        Msg {
            chain,
            id,
            src,
            contract: Addr::c(50 + (self.ctr % 3) as u8),
            ph: keccak(&payload),
        }
    }

    pub fn new_gateway(&mut self, name: &str, sets: Vec<WS>, retention: u64, min_delay: u64) -> String {
        self.run.scenario("gw", name);
        self.domain = keccak(format!("domain-{name}").as_bytes());
        self.retention = retention;
        self.min_delay = min_delay;
        self.sets.clear();
        self.set_time(self.now);
        let obs = self.run.op(
            &format!(
                "gw.new {} {} {} {} {} {} {}",
                self.gwaddr.tok(),
                self.owner.tok(),
                self.operator.tok(),
                hex::encode(self.domain),
                min_delay,
                retention,
                sets_tok(&sets)
            ),
            "construct",
        );
        self.alive = obs.starts_with("ok");
        if self.alive {
            self.sets = sets;
        }
        obs
    }

    pub fn approve(&mut self, ms: &[Msg], pf: &Pf, class: &str) -> String {
        self.run.op(&format!("gw.approve {} {}", msgs_tok(ms), pf.tok()), class)
    }
    pub fn validate_proof(&mut self, dh: &[u8; 32], pf: &Pf, class: &str) -> String {
        self.run.op(&format!("gw.validate_proof {} {}", hex::encode(dh), pf.tok()), class)
    }
    pub fn rotate(&mut self, ws: &WS, pf: &Pf, bypass: bool, auth: &AuthSpec, class: &str) -> String {
        let obs = self.run.op(
            &format!("gw.rotate {} {} {} {}", ws.tok(), pf.tok(), if bypass { 1 } else { 0 }, auth.tok()),
            class,
        );
        if obs.starts_with("ok") {
            self.sets.push(ws.clone());
        }
        obs
    }
    /// honest rotation by the latest set
    pub fn rotate_honest(&mut self, ws: &WS, class: &str) -> String {
        let latest = self.sets.last().unwrap().clone();
        let pf = self.honest(&latest, &ws.rotation_data_hash(&self.env));
        self.rotate(ws, &pf, false, &AuthSpec::None, class)
    }
    pub fn q_msg(&mut self, m: &Msg) {
        self.run.op(&format!("gw.is_approved {}", m.tok()), "q");
        self.run.op(&format!("gw.is_executed {} {}", hx(&m.chain), hx(&m.id)), "q");
    }
    pub fn q_auth_state(&mut self, extra_hashes: &[[u8; 32]]) {
        self.run.op("gw.epoch", "q");
        let n = self.sets.len() as u64;
        for e in 0..=n + 1 {
            self.run.op(&format!("gw.hash_by_epoch {e}"), "q");
        }
        let hs: Vec<[u8; 32]> = self.sets.iter().map(|s| s.hash(&self.env)).collect();
        for h in hs.iter().chain(extra_hashes.iter()) {
            self.run.op(&format!("gw.epoch_by_hash {}", hex::encode(h)), "q");
        }
    }
}

fn subsets_modes(n: usize, mask: u32) -> Vec<SigMode> {
    (0..n).map(|i| if mask >> i & 1 == 1 { SigMode::Valid } else { SigMode::Unsigned }).collect()
}

// ------------------------------------------------------------------------------------------------
// C01
// ------------------------------------------------------------------------------------------------
pub fn gen_c01(run: &mut Run, seed: u64, thorough: bool) {
    let mut g = G::new(run, seed);
    let scenarios = if thorough { 60 } else { 10 };
    let max_n = if thorough { 16 } else { 7 };
    let all_subsets_upto = if thorough { 7 } else { 4 };
    for sc in 0..scenarios {
        let n = if sc < 4 { sc as usize + 1 } else { g.rng.range(1, max_n) as usize };
        let wclass = if sc % 5 == 3 { 2 } else { g.rng.below(2) };
        let tclass = g.rng.below(4);
        // retention settings include "keep forever" (u64::MAX) and its neighbour
        let retention = match sc % 9 { 5 => u64::MAX, 6 => u64::MAX - 1, 7 => 1u64 << 32, 8 => (1u64 << 32) + 1, _ => g.rng.below(4) };
        let first = g.mk_set(n, wclass, tclass);
        // some gateways are constructed with SEVERAL initial sets (the last one is the live one; earlier ones age like rotated ones)
        let mut init: Vec<WS> = vec![];
        if sc % 3 == 1 {
            for _ in 0..g.rng.range(1, 2) {
                let k = g.rng.range(1, 3) as usize;
                init.push(g.mk_set(k, 0, 2));
            }
        }
        init.push(first.clone());
        g.new_gateway(&format!("c01-{sc}"), init, retention, 0);
        g.run.op("gw.epoch", "q");
        // history: 0..3 rotations so that `signing` may be latest / retained / expired
        let rotations = g.rng.below(4);
        for _ in 0..rotations {
            let k = g.rng.range(1, 4) as usize;
            let ws = g.mk_set(k, 0, 2);
            g.rotate_honest(&ws, "history-rotation");
        }
        // choose the signing set among installed ones
        let which = g.rng.below(g.sets.len() as u64) as usize;
        let signing = g.sets[which].clone();
        let age = g.sets.len() - 1 - which;
        let live = (age as u64) <= retention;
        let tag = if live { "live" } else { "expired" };
        let nn = signing.signers.len();

        // (a) subsets
        let masks: Vec<u32> = if nn <= all_subsets_upto {
            (0..(1u32 << nn)).collect()
        } else {
            (0..24).map(|_| (g.rng.next() as u32) & ((1u32 << nn) - 1)).collect()
        };
        for mask in masks {
            let m = g.fresh_msg();
            let dh = approve_data_hash(&g.env, &[m.clone()]);
            let d = g.signers_digest(&signing, &dh);
            let pf = g.proof(&signing, &d, &subsets_modes(nn, mask));
            if g.rng.chance(1, 3) {
                g.validate_proof(&dh, &pf, &format!("subset-{tag}-vp"));
            } else {
                g.approve(&[m.clone()], &pf, &format!("subset-{tag}"));
                g.q_msg(&m);
            }
        }
        // exact-threshold subset: weights engineered
        {
            let idx: Vec<usize> = (0..4).collect();
            let ws = g.mk_set_from(&idx, &[5, 7, 11, 13], 18);
            if g.rotate_honest(&ws, "history-rotation").starts_with("ok") {
                for mask in 0..16u32 {
                    let m = g.fresh_msg();
                    let dh = approve_data_hash(&g.env, &[m.clone()]);
                    let d = g.signers_digest(&ws, &dh);
                    let pf = g.proof(&ws, &d, &subsets_modes(4, mask));
                    g.approve(&[m.clone()], &pf, "exact-threshold");
                    g.q_msg(&m);
                }
            }
        }
        let cur = g.sets.last().unwrap().clone();
        let cn = cur.signers.len();
        // (b) per-signature corruption on a full signing of the latest set
        for mode in [SigMode::OtherKey, SigMode::Flipped, SigMode::OtherMsg, SigMode::Unsigned] {
            for pos in 0..cn.min(3) {
                let m = g.fresh_msg();
                let dh = approve_data_hash(&g.env, &[m.clone()]);
                let d = g.signers_digest(&cur, &dh);
                let mut modes = vec![SigMode::Valid; cn];
                modes[pos] = mode;
                let pf = g.proof(&cur, &d, &modes);
                g.approve(&[m.clone()], &pf, &format!("corrupt-{mode:?}"));
                g.q_msg(&m);
            }
        }
        // garbage after the threshold point must be ignored (early exit)
        {
            let idx: Vec<usize> = (4..8).collect();
            let ws = g.mk_set_from(&idx, &[3, 3, 3, 3], 6);
            if g.rotate_honest(&ws, "history-rotation").starts_with("ok") {
                for bad in [SigMode::Flipped, SigMode::OtherKey, SigMode::OtherMsg] {
                    let m = g.fresh_msg();
                    let dh = approve_data_hash(&g.env, &[m.clone()]);
                    let d = g.signers_digest(&ws, &dh);
                    let pf = g.proof(&ws, &d, &[SigMode::Valid, SigMode::Valid, bad, SigMode::Unsigned]);
                    g.approve(&[m.clone()], &pf, "garbage-after-threshold");
                    g.q_msg(&m);
                    let m = g.fresh_msg();
                    let dh = approve_data_hash(&g.env, &[m.clone()]);
                    let d = g.signers_digest(&ws, &dh);
                    let pf = g.proof(&ws, &d, &[SigMode::Valid, bad, SigMode::Valid, SigMode::Valid]);
                    g.approve(&[m.clone()], &pf, "garbage-before-threshold");
                    g.q_msg(&m);
                }
            }
        }
        let cur = g.sets.last().unwrap().clone();
        let cn = cur.signers.len();
        // (c) tampering with what the proof declares (honestly re-signed over the tampered set's own hash AND over the real one)
        for tamper in 0..10 {
            let m = g.fresh_msg();
            let dh = approve_data_hash(&g.env, &[m.clone()]);
            let mut t = cur.clone();
            let name = match tamper {
                0 => {
                    t.signers.pop();
                    "drop"
                }
                1 => {
                    let extra = (0..NKEYS).map(pk).find(|p| !t.signers.iter().any(|(k, _)| k == p)).unwrap();
                    t.signers.push((extra, 100));
                    t.signers.sort_by(|a, b| a.0.cmp(&b.0));
                    "add"
                }
                2 => {
                    let f = t.signers[0];
                    t.signers.insert(0, f);
                    "dup"
                }
                3 => {
                    if t.signers.len() >= 2 {
                        t.signers.swap(0, 1);
                    }
                    "swap"
                }
                4 => {
                    t.signers[0].1 += 1;
                    "weight+1"
                }
                8 => {
                    // an extra signer that carries NO weight (and will not sign): still not the registered set
                    let extra = (0..NKEYS).map(pk).find(|p| !t.signers.iter().any(|(k, _)| k == p)).unwrap();
                    t.signers.push((extra, 0));
                    t.signers.sort_by(|a, b| a.0.cmp(&b.0));
                    "add-weightless"
                }
                9 => {
                    let mut extra = [0xffu8; 32];
                    extra[31] = 0xfe;
                    t.signers.push((extra, 0));
                    "add-weightless-unknown-key-last"
                }
                5 => {
                    t.threshold = t.threshold.saturating_sub(1).max(1);
                    if t.threshold == cur.threshold {
                        t.threshold += 1;
                    }
                    "threshold-1"
                }
                6 => {
                    t.threshold += 1;
                    "threshold+1"
                }
                _ => {
                    t.nonce[31] ^= 1;
                    "nonce"
                }
            };
            if t == cur {
                continue;
            }
            // signatures over the digest of the REAL set (attacker replays genuine signatures)
            let d_real = g.signers_digest(&cur, &dh);
            let mut pf = g.proof(&t, &d_real, &vec![SigMode::Valid; t.signers.len()]);
            g.approve(&[m.clone()], &pf, &format!("tamper-{name}-realsig"));
            // signatures over the tampered set's own digest
            let d_t = g.signers_digest(&t, &dh);
            pf = g.proof(&t, &d_t, &vec![SigMode::Valid; t.signers.len()]);
            g.approve(&[m.clone()], &pf, &format!("tamper-{name}-ownsig"));
            g.q_msg(&m);
        }
        // (d) digests built for another domain / command kind / batch / signer set / raw data hash
        for variant in 0..6 {
            let m = g.fresh_msg();
            let m2 = g.fresh_msg();
            let dh = approve_data_hash(&g.env, &[m.clone()]);
            let sh = cur.hash(&g.env);
            let (d, name): (Vec<u8>, &str) = match variant {
                0 => {
                    let mut dom = g.domain;
                    dom[0] ^= 1;
                    (digest(&dom, &sh, &dh), "other-domain")
                }
                1 => {
                    // data hash of a ROTATION to the same set instead of the approval
                    (digest(&g.domain, &sh, &cur.rotation_data_hash(&g.env)), "other-command")
                }
                2 => (digest(&g.domain, &sh, &approve_data_hash(&g.env, &[m2.clone()])), "other-batch"),
                3 => (digest(&g.domain, &g.sets[0].hash(&g.env), &dh), if g.sets.len() > 1 { "other-set" } else { "same-set" }),
                4 => (dh.to_vec(), "raw-data-hash"),
                _ => (digest(&g.domain, &sh, &approve_data_hash(&g.env, &[m.clone(), m2.clone()])), "superset-batch"),
            };
            let pf = g.proof(&cur, &d, &vec![SigMode::Valid; cn]);
            g.approve(&[m.clone()], &pf, &format!("digest-{name}"));
            g.q_msg(&m);
        }
        // cross-command replay the other way: approval signatures used for validate_proof of a rotation hash
        {
            let ws = g.mk_set(2, 0, 2);
            let m = g.fresh_msg();
            let dh = approve_data_hash(&g.env, &[m.clone()]);
            let pf = g.honest(&cur, &dh);
            g.validate_proof(&ws.rotation_data_hash(&g.env), &pf, "vp-cross-command");
            g.validate_proof(&dh, &pf, "vp-honest");
        }
        // (e) batches: 0..4 messages with in-batch duplicates
        for bsz in 0..5usize {
            let mut ms: Vec<Msg> = (0..bsz).map(|_| g.fresh_msg()).collect();
            if bsz >= 2 && g.rng.chance(1, 2) {
                ms[bsz - 1] = ms[0].clone();
            }
            if bsz >= 3 && g.rng.chance(1, 2) {
                // same key, other content
                let mut alt = ms[1].clone();
                alt.ph[0] ^= 1;
                ms[2] = alt;
            }
            let dh = approve_data_hash(&g.env, &ms);
            let pf = g.honest(&cur, &dh);
            g.approve(&ms, &pf, &format!("batch-{bsz}"));
            for m in ms.clone() {
                g.q_msg(&m);
            }
        }
        // unknown set altogether
        {
            let ws = g.mk_set(2, 0, 2);
            let m = g.fresh_msg();
            let dh = approve_data_hash(&g.env, &[m.clone()]);
            let pf = g.honest(&ws, &dh);
            g.approve(&[m.clone()], &pf, "unknown-set");
            g.q_msg(&m);
        }
        // empty proof
        {
            let m = g.fresh_msg();
            let pf = Pf { signers: vec![], threshold: cur.threshold, nonce: cur.nonce };
            g.approve(&[m.clone()], &pf, "empty-proof");
        }
        // a batch that is ALREADY approved (and one already executed), re-submitted under an invalid proof: the proof check
        // comes first whatever the batch contains — the submission is rejected, not silently accepted as "nothing to do"
        {
            let m1 = g.fresh_msg();
            let m2 = g.fresh_msg();
            let ms = vec![m1.clone(), m2.clone()];
            let dh = approve_data_hash(&g.env, &ms);
            let pf = g.honest(&cur, &dh);
            g.approve(&ms, &pf, "resubmit-setup-approve");
            let app = m2.contract.clone();
            g.run.op(
                &format!("gw.validate_message {} {} {} {} {} {}", app.tok(), hx(&m2.chain), hx(&m2.id), hx(&m2.src), hex::encode(m2.ph), AuthSpec::exact(&[app.clone()]).tok()),
                "resubmit-setup-consume",
            );
            let unknown = g.mk_set(2, 0, 2);
            let pf_unknown = g.honest(&unknown, &dh);
            g.approve(&ms, &pf_unknown, "resubmit-approved-batch-unknown-set");
            let d = g.signers_digest(&cur, &dh);
            let pf_unsigned = g.proof(&cur, &d, &vec![SigMode::Unsigned; cn]);
            g.approve(&ms, &pf_unsigned, "resubmit-approved-batch-unsigned");
            g.approve(&[m1.clone()], &pf_unsigned, "resubmit-approved-subbatch-unsigned");
            g.approve(&[m2.clone(), m1.clone()], &pf_unknown, "resubmit-approved-batch-permuted-unknown-set");
            g.approve(&ms, &pf, "resubmit-approved-batch-honest");
            g.q_msg(&m1);
            g.q_msg(&m2);
        }
        g.run.op("gw.epoch", "q");
    }
    // a set that has LEFT the retention window stays out for good: a batch it approved while live, re-submitted with its (once
    // valid) signatures, is refused; it cannot be installed a second time; and it approves nothing afterwards
    for ret in [0u64, 1, 2] {
        let a_set = g.mk_set(2, 0, 2);
        g.new_gateway(&format!("c01-expired-ret{ret}"), vec![a_set.clone()], ret, 0);
        let m1 = g.fresh_msg();
        let m2 = g.fresh_msg();
        let ms = vec![m1.clone(), m2.clone()];
        let dh = approve_data_hash(&g.env, &ms);
        let pf_a = g.honest(&a_set, &dh);
        g.approve(&ms, &pf_a, "expiry-setup-approve-while-live");
        let app = m2.contract.clone();
        g.run.op(
            &format!("gw.validate_message {} {} {} {} {} {}", app.tok(), hx(&m2.chain), hx(&m2.id), hx(&m2.src), hex::encode(m2.ph), AuthSpec::exact(&[app.clone()]).tok()),
            "expiry-setup-consume",
        );
        for _ in 0..=ret {
            let ws = g.mk_set(2, 0, 2);
            g.rotate_honest(&ws, "history-rotation");
        }
        g.approve(&ms, &pf_a, "resubmit-approved-batch-by-expired-set");
        let pf_1 = g.honest(&a_set, &approve_data_hash(&g.env, &[m1.clone()]));
        g.approve(&[m1.clone()], &pf_1, "resubmit-approved-message-by-expired-set");
        g.validate_proof(&dh, &pf_a, "vp-expired");
        let latest = g.sets.last().unwrap().clone();
        let pf = g.honest(&latest, &a_set.rotation_data_hash(&g.env));
        g.rotate(&a_set, &pf, false, &AuthSpec::None, "reinstall-expired-set");
        let m3 = g.fresh_msg();
        let dh3 = approve_data_hash(&g.env, &[m3.clone()]);
        let pf3 = g.honest(&a_set, &dh3);
        g.approve(&[m3.clone()], &pf3, "approve-by-expired-set-after-reinstall-attempt");
        g.validate_proof(&dh3, &pf3, "vp-expired-after-reinstall-attempt");
        g.q_msg(&m1);
        g.q_msg(&m3);
        let h = a_set.hash(&g.env);
        g.q_auth_state(&[h]);
    }
    // gateways whose ONLY signer set is malformed (duplicated key, zero weight, threshold above the total, …): such a set
    // must never become a live set — construction fails; should it succeed, "proofs" by it are submitted right away
    for (k, (bad, name)) in malformed_sets(&mut g).into_iter().enumerate() {
        g.new_gateway(&format!("c01-ctor-malformed-{k}-{name}"), vec![bad.clone()], 1, 0);
        let m = g.fresh_msg();
        let dh = approve_data_hash(&g.env, &[m.clone()]);
        let d = g.signers_digest(&bad, &dh);
        let pf = g.proof(&bad, &d, &vec![SigMode::Valid; bad.signers.len()]);
        g.approve(&[m.clone()], &pf, &format!("approve-by-malformed-initial-set-{name}"));
        g.q_msg(&m);
    }
    // a VERY large live set (300 entries: 298 keys with weight 1 that never sign, then two real signers with weight 200 each,
    // threshold 400): the two signatures at the very end of the proof carry it; one of them alone does not
    {
        let mut signers: Vec<([u8; 32], u128)> = (0..298usize).map(|i| { let mut k = [0u8; 32]; k[2] = (i >> 8) as u8; k[3] = i as u8; k[4] = 1; (k, 1u128) }).collect();
        let mut real = vec![pk(0), pk(1)];
        real.sort();
        signers.push((real[0], 200));
        signers.push((real[1], 200));
        signers.sort_by(|a, b| a.0.cmp(&b.0));
        let big = WS { signers: signers.clone(), threshold: 400, nonce: [0x77; 32] };
        g.new_gateway("c01-very-large-set", vec![big.clone()], 1, 0);
        for (nm, who) in [("both-tail-signers", vec![true, true]), ("one-tail-signer", vec![false, true]), ("other-tail-signer", vec![true, false])] {
            let m = g.fresh_msg();
            let dh = approve_data_hash(&g.env, &[m.clone()]);
            let d = g.signers_digest(&big, &dh);
            let modes: Vec<SigMode> = signers.iter().map(|(k, _)| if *k == real[0] { if who[0] { SigMode::Valid } else { SigMode::Unsigned } } else if *k == real[1] { if who[1] { SigMode::Valid } else { SigMode::Unsigned } } else { SigMode::Unsigned }).collect();
            let pf = g.proof(&big, &d, &modes);
            g.approve(&[m.clone()], &pf, &format!("very-large-set-{nm}"));
            g.q_msg(&m);
            g.validate_proof(&dh, &pf, &format!("very-large-set-{nm}-vp"));
        }
    }
    // near-overflow: weights summing to exactly 2^128-1; and a proof whose declared weights overflow
    {
        let idx: Vec<usize> = (0..3).collect();
        let w = u128::MAX / 3;
        let ws = g.mk_set_from(&idx, &[w, w, u128::MAX - 2 * w], u128::MAX);
        g.new_gateway("c01-overflow", vec![ws.clone()], 1, 0);
        for mask in 0..8u32 {
            let m = g.fresh_msg();
            let dh = approve_data_hash(&g.env, &[m.clone()]);
            let d = g.signers_digest(&ws, &dh);
            let pf = g.proof(&ws, &d, &subsets_modes(3, mask));
            g.approve(&[m.clone()], &pf, "near-overflow");
            g.q_msg(&m);
        }
    }
}

// ------------------------------------------------------------------------------------------------
// C02
// ------------------------------------------------------------------------------------------------
pub fn gen_c02(run: &mut Run, seed: u64, thorough: bool) {
    let mut g = G::new(run, seed);
    let histories = if thorough { 400 } else { 40 };
    let len = if thorough { 30 } else { 22 };
    for h in 0..histories {
        let ws = g.mk_set(2, 0, 2);
        g.new_gateway(&format!("c02-{h}"), vec![ws.clone()], 0, 0);
        // message universe: ids incl. a split pair, two contents per key
        let keys: Vec<(Vec<u8>, Vec<u8>)> = vec![
            (b"ab".to_vec(), b"c".to_vec()),
            (b"a".to_vec(), b"bc".to_vec()),
            (b"eth".to_vec(), b"0x1".to_vec()),
            (b"eth".to_vec(), b"0x2".to_vec()),
            (b"".to_vec(), b"abc".to_vec()),
            (b"avax".to_vec(), b"0x1".to_vec()), // the same id as a message of another chain
            (b"abc".to_vec(), b"".to_vec()),
        ];
        // every fourth history: one of the two destination contracts is the GATEWAY's own address (an address like any other)
        let apps = [Addr::c(60), if h % 4 == 3 { g.gwaddr.clone() } else { Addr::c(61) }];
        let mk = |k: usize, content: u8| -> Msg {
            let (c, i) = keys[k].clone();
            Msg {
                chain: c,
                id: i,
                src: if content & 1 == 0 { b"srcA".to_vec() } else { b"srcB".to_vec() },
                contract: apps[(content >> 1 & 1) as usize].clone(),
                ph: keccak(&[content >> 2 & 1]),
            }
        };
        let mut seen: Vec<Msg> = vec![];
        for _ in 0..len {
            let k = g.rng.below(keys.len() as u64) as usize;
            let content = g.rng.below(8) as u8;
            let m = mk(k, content);
            let r = g.rng.below(10);
            if r < 3 {
                // single approval
                let dh = approve_data_hash(&g.env, &[m.clone()]);
                let pf = g.honest(&ws, &dh);
                g.approve(&[m.clone()], &pf, "approve-1");
                seen.push(m.clone());
            } else if r < 5 {
                // batched approval with possible in-batch duplicates / conflicting contents
                let mut ms = vec![m.clone()];
                for _ in 0..g.rng.range(1, 3) {
                    let k2 = if g.rng.chance(1, 2) { k } else { g.rng.below(keys.len() as u64) as usize };
                    ms.push(mk(k2, g.rng.below(8) as u8));
                }
                let dh = approve_data_hash(&g.env, &ms);
                let pf = g.honest(&ws, &dh);
                g.approve(&ms, &pf, "approve-batch");
                seen.extend(ms.iter().cloned());
            } else if r < 9 {
                // consumption attempt: base on an approved message when possible, then deviate in one field
                let base = if !seen.is_empty() && g.rng.chance(4, 5) { g.rng.pick(&seen).clone() } else { m.clone() };
                let dev = g.rng.below(9);
                let mut c = base.clone();
                let mut caller = base.contract.clone();
                let mut auth = AuthSpec::exact(&[caller.clone()]);
                let class = match dev {
                    0 | 1 | 2 => "consume-exact",
                    3 => {
                        caller = if caller == apps[0] { apps[1].clone() } else { apps[0].clone() };
                        auth = AuthSpec::exact(&[caller.clone()]);
                        "consume-wrong-caller"
                    }
                    4 => {
                        c.src = b"srcX".to_vec();
                        "consume-wrong-src"
                    }
                    5 => {
                        c.ph[3] ^= 0x40;
                        "consume-wrong-hash"
                    }
                    6 => {
                        let k2 = (k + 1) % keys.len();
                        c.chain = keys[k2].0.clone();
                        c.id = keys[k2].1.clone();
                        "consume-other-key"
                    }
                    7 => {
                        auth = AuthSpec::None;
                        "consume-no-auth"
                    }
                    _ => {
                        auth = AuthSpec::List(vec![(Addr::c(9), false), (caller.clone(), true)]);
                        "consume-foreign-auth"
                    }
                };
                // the gateway never calls itself (the host refuses a contract authorising a call to itself): messages addressed
                // to the gateway are approved and queried like any other, consumption attempts come from the other application
                let mut class = class;
                if caller == g.gwaddr {
                    caller = apps[0].clone();
                    if !matches!(auth, AuthSpec::None) {
                        auth = AuthSpec::exact(&[caller.clone()]);
                    }
                    class = "consume-self-addressed-by-other";
                }
                g.run.op(
                    &format!(
                        "gw.validate_message {} {} {} {} {} {}",
                        caller.tok(),
                        hx(&c.chain),
                        hx(&c.id),
                        hx(&c.src),
                        hex::encode(c.ph),
                        auth.tok()
                    ),
                    class,
                );
            }
            // status queries: the touched message and one other
            g.q_msg(&m);
            if !seen.is_empty() {
                let o = g.rng.pick(&seen).clone();
                g.q_msg(&o);
            }
        }
    }
    // directed: (chain, id) pairs that become EQUAL once joined with a separator character — ("a_b","c") / ("a","b_c"), a split
    // next to the separator, the separator alone — for every separator a key-builder might use; each of the two messages has
    // its own status, whatever happened to the other
    {
        let ws = g.mk_set(2, 0, 2);
        for (k, sep) in [b'_', b'-', b':', b'/', b'|', b'.', b',', b' ', 0u8, b'#', b'+'].iter().enumerate() {
            g.new_gateway(&format!("c02-separator-{k}"), vec![ws.clone()], 0, 0);
            let pairs: Vec<((Vec<u8>, Vec<u8>), (Vec<u8>, Vec<u8>))> = vec![
                (([b"a".to_vec(), vec![*sep], b"b".to_vec()].concat(), b"c".to_vec()), (b"a".to_vec(), [b"b".to_vec(), vec![*sep], b"c".to_vec()].concat())),
                (([b"eth".to_vec(), vec![*sep]].concat(), b"0x1".to_vec()), (b"eth".to_vec(), [vec![*sep], b"0x1".to_vec()].concat())),
                ((vec![*sep], vec![]), (vec![], vec![*sep])),
            ];
            for (n, (ka, kb)) in pairs.into_iter().enumerate() {
                let app = Addr::c(60);
                let ma = Msg { chain: ka.0.clone(), id: ka.1.clone(), src: b"srcA".to_vec(), contract: app.clone(), ph: keccak(b"A") };
                let mb = Msg { chain: kb.0.clone(), id: kb.1.clone(), src: b"srcB".to_vec(), contract: app.clone(), ph: keccak(b"B") };
                let pf = g.honest(&ws, &approve_data_hash(&g.env, &[ma.clone()]));
                g.approve(&[ma.clone()], &pf, "separator-approve-first");
                g.q_msg(&ma);
                g.q_msg(&mb);
                if n % 2 == 0 {
                    g.run.op(
                        &format!("gw.validate_message {} {} {} {} {} {}", app.tok(), hx(&ma.chain), hx(&ma.id), hx(&ma.src), hex::encode(ma.ph), AuthSpec::exact(&[app.clone()]).tok()),
                        "separator-consume-first",
                    );
                    g.q_msg(&mb);
                }
                let pf = g.honest(&ws, &approve_data_hash(&g.env, &[mb.clone()]));
                g.approve(&[mb.clone()], &pf, "separator-approve-second");
                g.q_msg(&ma);
                g.q_msg(&mb);
                g.run.op(
                    &format!("gw.validate_message {} {} {} {} {} {}", app.tok(), hx(&mb.chain), hx(&mb.id), hx(&mb.src), hex::encode(mb.ph), AuthSpec::exact(&[app.clone()]).tok()),
                    "separator-consume-second",
                );
                g.q_msg(&ma);
                g.q_msg(&mb);
            }
        }
    }
    // directed: signer ROTATIONS between approval and consumption (retention 0 and 2): what was approved stays approved, with
    // its content, whoever signs now; it is consumed once; a message approved by the new set behaves alike
    for ret in [0u64, 2] {
        let ws = g.mk_set(2, 0, 2);
        g.new_gateway(&format!("c02-rotation-between-ret{ret}"), vec![ws.clone()], ret, 0);
        let app = Addr::c(60);
        let mk = |i: u8| Msg { chain: b"eth".to_vec(), id: vec![b'r', i], src: b"src".to_vec(), contract: app.clone(), ph: keccak(&[i]) };
        let (m1, m2, m3) = (mk(1), mk(2), mk(3));
        let pf = g.honest(&ws, &approve_data_hash(&g.env, &[m1.clone(), m2.clone()]));
        g.approve(&[m1.clone(), m2.clone()], &pf, "approve-before-rotation");
        let consume = |g: &mut G, m: &Msg, cls: &str| {
            g.run.op(
                &format!("gw.validate_message {} {} {} {} {} {}", app.tok(), hx(&m.chain), hx(&m.id), hx(&m.src), hex::encode(m.ph), AuthSpec::exact(&[app.clone()]).tok()),
                cls,
            );
        };
        consume(&mut g, &m1, "consume-before-rotation");
        let ws2 = g.mk_set(2, 0, 2);
        g.rotate_honest(&ws2, "rotation-between");
        g.q_msg(&m1);
        g.q_msg(&m2);
        consume(&mut g, &m2, "consume-after-rotation");
        consume(&mut g, &m2, "consume-after-rotation-again");
        consume(&mut g, &m1, "consume-executed-after-rotation");
        let pf = g.honest(&ws2, &approve_data_hash(&g.env, &[m3.clone(), m2.clone()]));
        g.approve(&[m3.clone(), m2.clone()], &pf, "approve-after-rotation");
        let ws3 = g.mk_set(2, 0, 2);
        g.rotate_honest(&ws3, "rotation-between");
        let ws4 = g.mk_set(2, 0, 2);
        g.rotate_honest(&ws4, "rotation-between");
        g.q_msg(&m3);
        consume(&mut g, &m3, "consume-after-two-rotations");
        g.q_msg(&m2);
        g.q_msg(&m3);
    }
    // directed: ONE signed batch of 40 (thorough: 300) distinct messages — every one of them is recorded, announced and consumable
    {
        let ws = g.mk_set(2, 0, 2);
        g.new_gateway("c02-large-batch", vec![ws.clone()], 0, 0);
        let n = if thorough { 300 } else { 40 };
        let app = Addr::c(60);
        let ms: Vec<Msg> = (0..n).map(|i| Msg { chain: b"eth".to_vec(), id: format!("big-{i}").into_bytes(), src: b"src".to_vec(), contract: app.clone(), ph: keccak(&[i as u8]) }).collect();
        let pf = g.honest(&ws, &approve_data_hash(&g.env, &ms));
        g.approve(&ms, &pf, "approve-large-batch");
        for (i, m) in ms.iter().enumerate() {
            g.q_msg(m);
            if i % 7 == 0 || i + 1 == ms.len() || i == 32 || i == 33 {
                g.run.op(
                    &format!("gw.validate_message {} {} {} {} {} {}", app.tok(), hx(&m.chain), hx(&m.id), hx(&m.src), hex::encode(m.ph), AuthSpec::exact(&[app.clone()]).tok()),
                    "consume-from-large-batch",
                );
                g.q_msg(m);
            }
        }
        // a batch [known, new, known]: the new one in the middle counts
        let a_ = ms[0].clone();
        let c_ = ms[1].clone();
        let b_ = Msg { chain: b"eth".to_vec(), id: b"middle".to_vec(), src: b"src".to_vec(), contract: app.clone(), ph: keccak(b"mid") };
        let batch = vec![a_, b_.clone(), c_];
        let pf = g.honest(&ws, &approve_data_hash(&g.env, &batch));
        g.approve(&batch, &pf, "approve-known-new-known");
        g.q_msg(&b_);
    }
    // directed: destinations that are ACCOUNT addresses (an ordinary one, the all-zero one), alone and between two contract
    // destinations in one batch: recorded and announced like any other (mock authorisations exist for contract addresses only, so
    // consumption by an account is tried under the blanket authorisation and without any)
    {
        let ws = g.mk_set(2, 0, 2);
        g.new_gateway("c02-account-destinations", vec![ws.clone()], 0, 0);
        let accts = [Addr { contract: false, id: [7u8; 32] }, Addr { contract: false, id: [0u8; 32] }];
        for (k, acct) in accts.iter().enumerate() {
            let mk = |i: u8, to: &Addr| Msg { chain: b"eth".to_vec(), id: vec![b'a', k as u8 + b'0', i], src: b"src".to_vec(), contract: to.clone(), ph: keccak(&[i]) };
            let alone = mk(0, acct);
            let pf = g.honest(&ws, &approve_data_hash(&g.env, &[alone.clone()]));
            g.approve(&[alone.clone()], &pf, "approve-account-destination");
            g.q_msg(&alone);
            let batch = vec![mk(1, &Addr::c(60)), mk(2, acct), mk(3, &Addr::c(61))];
            let pf = g.honest(&ws, &approve_data_hash(&g.env, &batch));
            g.approve(&batch, &pf, "approve-batch-with-account-destination");
            for m in &batch {
                g.q_msg(m);
            }
            // a conflicting approval for the same id naming a contract: inert
            let mut other = alone.clone();
            other.contract = Addr::c(60);
            let pf = g.honest(&ws, &approve_data_hash(&g.env, &[other.clone()]));
            g.approve(&[other.clone()], &pf, "reapprove-account-message-other-destination");
            g.q_msg(&alone);
            g.q_msg(&other);
            for au in ["-", "*"] {
                g.run.op(
                    &format!("gw.validate_message {} {} {} {} {} {au}", acct.tok(), hx(&alone.chain), hx(&alone.id), hx(&alone.src), hex::encode(alone.ph)),
                    &format!("consume-by-account-{}", if au == "-" { "nobody" } else { "everyone" }),
                );
                g.q_msg(&alone);
            }
        }
    }
    if thorough {
        // exhaustive sequences of length <= 5 over a 9-letter alphabet on ONE key (one shard does it; the others
        // enumerate length 4 so that no shard repeats the long enumeration)
        exhaustive_c02(&mut g, if seed % 1000 == 0 { 5 } else { 4 });
    } else {
        exhaustive_c02(&mut g, 3);
    }
}

fn exhaustive_c02(g: &mut G, maxlen: usize) {
    let ws = g.mk_set(1, 0, 0);
    let app = Addr::c(60);
    let other = Addr::c(61);
    let a = Msg { chain: b"eth".to_vec(), id: b"id".to_vec(), src: b"src".to_vec(), contract: app.clone(), ph: keccak(b"A") };
    let mut b = a.clone();
    b.ph = keccak(b"B");
    let total: usize = (1..=maxlen).map(|l| 9usize.pow(l as u32)).sum();
    // cap: enumerate all sequences of exactly maxlen (prefixes cover the shorter ones)
    let n = 9usize.pow(maxlen as u32);
    let _ = total;
    for code in 0..n {
        g.new_gateway(&format!("c02-exh-{code}"), vec![ws.clone()], 0, 0);
        let mut c = code;
        for _ in 0..maxlen {
            let letter = c % 9;
            c /= 9;
            match letter {
                0 | 1 => {
                    let m = if letter == 0 { a.clone() } else { b.clone() };
                    let dh = approve_data_hash(&g.env, &[m.clone()]);
                    let pf = g.honest(&ws, &dh);
                    g.approve(&[m], &pf, "x-approve");
                }
                2 => {
                    let ms = vec![a.clone(), b.clone()];
                    let dh = approve_data_hash(&g.env, &ms);
                    let pf = g.honest(&ws, &dh);
                    g.approve(&ms, &pf, "x-approve-both");
                }
                3 | 4 => {
                    let m = if letter == 3 { a.clone() } else { b.clone() };
                    g.run.op(
                        &format!("gw.validate_message {} {} {} {} {} {}", app.tok(), hx(&m.chain), hx(&m.id), hx(&m.src), hex::encode(m.ph), AuthSpec::exact(&[app.clone()]).tok()),
                        "x-consume",
                    );
                }
                5 => {
                    g.run.op(
                        &format!("gw.validate_message {} {} {} {} {} {}", other.tok(), hx(&a.chain), hx(&a.id), hx(&a.src), hex::encode(a.ph), AuthSpec::exact(&[other.clone()]).tok()),
                        "x-consume-other-caller",
                    );
                }
                6 => {
                    g.run.op(
                        &format!("gw.validate_message {} {} {} {} {} -", app.tok(), hx(&a.chain), hx(&a.id), hx(&a.src), hex::encode(a.ph)),
                        "x-consume-noauth",
                    );
                }
                7 => {
                    g.run.op(
                        &format!("gw.validate_message {} {} {} {} {} {}", app.tok(), hx(&a.chain), hx(&a.id), hx(b"srcZ"), hex::encode(a.ph), AuthSpec::exact(&[app.clone()]).tok()),
                        "x-consume-wrong-src",
                    );
                }
                _ => {}
            }
            g.q_msg(&a);
            g.run.op(&format!("gw.is_approved {}", b.tok()), "q");
        }
    }
}

// ------------------------------------------------------------------------------------------------
// C03
// ------------------------------------------------------------------------------------------------
fn malformed_sets(g: &mut G) -> Vec<(WS, &'static str)> {
    let mut out = vec![];
    let base = g.mk_set(3, 0, 2);
    let mut ks: Vec<[u8; 32]> = base.signers.iter().map(|s| s.0).collect();
    ks.sort();
    // empty
    out.push((WS { signers: vec![], threshold: 1, nonce: base.nonce }, "empty"));
    // adjacent equal keys
    out.push((WS { signers: vec![(ks[0], 1), (ks[1], 1), (ks[1], 1)], threshold: 2, nonce: base.nonce }, "dup-adjacent"));
    out.push((WS { signers: vec![(ks[0], 2), (ks[0], 2)], threshold: 2, nonce: base.nonce }, "dup-first"));
    // descending pair
    out.push((WS { signers: vec![(ks[1], 1), (ks[0], 1), (ks[2], 1)], threshold: 2, nonce: base.nonce }, "descending"));
    out.push((WS { signers: vec![(ks[0], 1), (ks[2], 1), (ks[1], 1)], threshold: 2, nonce: base.nonce }, "descending-tail"));
    // zero key first / only
    out.push((WS { signers: vec![([0u8; 32], 1), (ks[0], 1)], threshold: 1, nonce: base.nonce }, "zero-key"));
    // smallest non-zero key is fine
    let mut one = [0u8; 32];
    one[31] = 1;
    // zero weight
    out.push((WS { signers: vec![(ks[0], 1), (ks[1], 0), (ks[2], 1)], threshold: 1, nonce: base.nonce }, "zero-weight"));
    out.push((WS { signers: vec![(ks[0], 0)], threshold: 0, nonce: base.nonce }, "zero-weight-zero-thr"));
    // weights summing to 2^128-1 (ok) and 2^128 (overflow)
    let half = 1u128 << 127;
    out.push((WS { signers: vec![(ks[0], half), (ks[1], half - 1)], threshold: u128::MAX, nonce: base.nonce }, "sum-max-ok"));
    out.push((WS { signers: vec![(ks[0], half), (ks[1], half)], threshold: 5, nonce: base.nonce }, "sum-overflow"));
    out.push((WS { signers: vec![(ks[0], u128::MAX), (ks[1], 1)], threshold: 5, nonce: base.nonce }, "sum-overflow-by-one"));
    // threshold 0 / total / total+1
    out.push((WS { signers: vec![(ks[0], 3), (ks[1], 4)], threshold: 0, nonce: base.nonce }, "thr-zero"));
    out.push((WS { signers: vec![(ks[0], 3), (ks[1], 4)], threshold: 7, nonce: base.nonce }, "thr-total-ok"));
    out.push((WS { signers: vec![(ks[0], 3), (ks[1], 4)], threshold: 8, nonce: base.nonce }, "thr-total+1"));
    out.push((WS { signers: vec![(ks[0], 3)], threshold: 3, nonce: base.nonce }, "single-ok"));
    // LAST, because nobody can sign for the key 0x00…01: once this well-formed set is installed as the latest set, no later
    // candidate could be authorised by a non-bypass rotation any more
    out.push((WS { signers: vec![(one, 1), (ks[0], 1)], threshold: 1, nonce: base.nonce }, "key-one-ok"));
    out
}

pub fn gen_c03(run: &mut Run, seed: u64, thorough: bool) {
    let mut g = G::new(run, seed);
    let rounds = if thorough { 30 } else { 3 };
    for r in 0..rounds {
        // ---- rotations with candidate sets of every shape, proofs of every kind
        let retention = g.rng.below(3);
        let s0 = g.mk_set(2, 0, 2);
        let s1 = g.mk_set(3, 0, 2);
        g.new_gateway(&format!("c03-rot-{r}"), vec![s0.clone(), s1.clone()], retention, 0);
        g.q_auth_state(&[]);
        let cands = malformed_sets(&mut g);
        for (cand, name) in cands {
            let latest = g.sets.last().unwrap().clone();
            let pf = g.honest(&latest, &cand.rotation_data_hash(&g.env));
            g.rotate(&cand, &pf, false, &AuthSpec::None, &format!("cand-{name}"));
            g.q_auth_state(&[cand.hash(&g.env)]);
        }
        // repeats of earlier sets (any earlier one)
        for i in 0..g.sets.len().min(4) {
            let cand = g.sets[i].clone();
            let latest = g.sets.last().unwrap().clone();
            let pf = g.honest(&latest, &cand.rotation_data_hash(&g.env));
            g.rotate(&cand, &pf, false, &AuthSpec::None, "cand-repeat");
            g.q_auth_state(&[]);
        }
        // a FRESH gateway for the proof variants: one of the well-formed candidates above (`key-one-ok`) has a key nobody can
        // sign for, so after that loop the latest set of the first gateway cannot authorise anything any more
        {
            let a0 = g.mk_set(2, 0, 2);
            let a1 = g.mk_set(3, 0, 2);
            let a2 = g.mk_set(2, 0, 2);
            g.new_gateway(&format!("c03-proofs-{r}"), vec![a0, a1], retention.max(1), 0);
            g.rotate_honest(&a2, "history-rotation");
            g.q_auth_state(&[]);
            // a set installed EARLIER (the first, the second, the latest itself) proposed again, properly signed by the latest
            // set, through the ordinary and through the operator's path: refused either way
            for i in 0..g.sets.len() {
                let cand = g.sets[i].clone();
                let latest = g.sets.last().unwrap().clone();
                let pf = g.honest(&latest, &cand.rotation_data_hash(&g.env));
                g.rotate(&cand, &pf, false, &AuthSpec::None, "repeat-earlier-set-ordinary-path");
                let op = g.operator.clone();
                g.rotate(&cand, &pf, true, &AuthSpec::exact(&[op]), "repeat-earlier-set-bypass-path");
                g.q_auth_state(&[]);
            }
        }
        // LARGE candidate sets (130 and 300 signers; the keys need no signer behind them): the rules hold to the last entry — a
        // duplicate, a descending pair, a zero weight, an overflowing weight at the very end are refused; the well-formed set
        // is installed (last, because nobody can sign for it afterwards)
        if r == 0 {
            for n in [130usize, 300] {
                let a0 = g.mk_set(2, 0, 2);
                g.new_gateway(&format!("c03-large-{r}-{n}"), vec![a0.clone()], 1, 0);
                let keys: Vec<[u8; 32]> = (0..n).map(|i| { let mut k = [0x11u8; 32]; k[30] = (i >> 8) as u8; k[31] = i as u8; k }).collect();
                let good = WS { signers: keys.iter().map(|k| (*k, 1u128)).collect(), threshold: 100, nonce: [n as u8; 32] };
                let mut variants: Vec<(WS, &str)> = vec![];
                let mut v = good.clone();
                v.signers[n - 1].0 = v.signers[n - 2].0;
                variants.push((v, "last-duplicate"));
                let mut v = good.clone();
                v.signers.swap(n - 1, n - 2);
                variants.push((v, "last-pair-descending"));
                let mut v = good.clone();
                v.signers[n - 1].1 = 0;
                variants.push((v, "last-zero-weight"));
                let mut v = good.clone();
                v.signers[n - 1].1 = u128::MAX;
                variants.push((v, "last-weight-overflows"));
                let mut v = good.clone();
                v.signers[129].1 = 0;
                variants.push((v, "entry-129-zero-weight"));
                let mut v = good.clone();
                v.threshold = n as u128 + 1;
                variants.push((v, "threshold-above-total"));
                variants.push((good.clone(), "well-formed"));
                for (cand, name) in variants {
                    let latest = g.sets.last().unwrap().clone();
                    let pf = g.honest(&latest, &cand.rotation_data_hash(&g.env));
                    g.rotate(&cand, &pf, false, &AuthSpec::None, &format!("cand-large-{n}-{name}"));
                    g.run.op("gw.epoch", "q");
                    g.run.op(&format!("gw.epoch_by_hash {}", hex::encode(cand.hash(&g.env))), "q");
                }
            }
        }
        // rotation proofs by SUBSETS of the latest set (a 3-signer set with weights 5,5,1 and threshold 10 is installed before
        // each attempt): unsigned entries before a signed one, signed weight below / at / above the threshold
        for mask in 0..8u32 {
            let idx: Vec<usize> = (0..3).collect();
            let wset = g.mk_set_from(&idx, &[5, 5, 1], 10);
            g.rotate_honest(&wset, "install-weighted-set");
            let cand = g.mk_set(2, 0, 2);
            let d = g.signers_digest(&wset, &cand.rotation_data_hash(&g.env));
            let pf = g.proof(&wset, &d, &subsets_modes(3, mask));
            g.rotate(&cand, &pf, false, &AuthSpec::None, &format!("proof-subset-mask{mask}"));
            g.q_auth_state(&[cand.hash(&g.env)]);
        }
        // proofs of every kind for a good candidate
        for kind in 0..13 {
            let cand = g.mk_set(2, 0, 2);
            let latest = g.sets.last().unwrap().clone();
            let n = g.sets.len();
            let (pf, bypass, auth, name): (Pf, bool, AuthSpec, &str) = match kind {
                0 => (g.honest(&latest, &cand.rotation_data_hash(&g.env)), false, AuthSpec::None, "proof-latest"),
                1 => {
                    let older = g.sets[n.saturating_sub(2)].clone();
                    (g.honest(&older, &cand.rotation_data_hash(&g.env)), false, AuthSpec::None, "proof-older-nobypass")
                }
                2 => {
                    let older = g.sets[n.saturating_sub(2)].clone();
                    (g.honest(&older, &cand.rotation_data_hash(&g.env)), true, AuthSpec::exact(&[g.operator.clone()]), "proof-older-bypass")
                }
                3 => {
                    let unknown = g.mk_set(2, 0, 2);
                    (g.honest(&unknown, &cand.rotation_data_hash(&g.env)), false, AuthSpec::None, "proof-unknown-set")
                }
                4 => {
                    let othercand = g.mk_set(2, 0, 2);
                    (g.honest(&latest, &othercand.rotation_data_hash(&g.env)), false, AuthSpec::None, "proof-other-candidate")
                }
                5 => {
                    // approval-style data hash over the candidate's hash
                    (g.honest(&latest, &cand.hash(&g.env)), false, AuthSpec::None, "proof-plain-set-hash")
                }
                6 => {
                    let old = g.sets[0].clone();
                    (g.honest(&old, &cand.rotation_data_hash(&g.env)), true, AuthSpec::exact(&[g.operator.clone()]), "proof-oldest-bypass")
                }
                7 => {
                    let older = g.sets[n.saturating_sub(2)].clone();
                    (g.honest(&older, &cand.rotation_data_hash(&g.env)), true, AuthSpec::None, "proof-older-bypass-nobody")
                }
                8 => {
                    let older = g.sets[n.saturating_sub(2)].clone();
                    (g.honest(&older, &cand.rotation_data_hash(&g.env)), true, AuthSpec::exact(&[g.owner.clone()]), "proof-older-bypass-owner")
                }
                10 | 11 | 12 => {
                    // the proof DECLARES a tampered version of the latest set (first signer listed twice / a weight raised /
                    // the threshold lowered) and carries the genuine signatures over the real set's digest
                    let mut t = latest.clone();
                    let nm = match kind {
                        10 => {
                            let f = t.signers[0];
                            t.signers.insert(0, f);
                            "proof-declares-duplicated-signer"
                        }
                        11 => {
                            t.signers[0].1 += 1;
                            "proof-declares-raised-weight"
                        }
                        _ => {
                            t.threshold = if t.threshold > 1 { t.threshold - 1 } else { t.threshold + 1 };
                            "proof-declares-other-threshold"
                        }
                    };
                    let d_real = g.signers_digest(&latest, &cand.rotation_data_hash(&g.env));
                    let pf = g.proof(&t, &d_real, &vec![SigMode::Valid; t.signers.len()]);
                    (pf, false, AuthSpec::None, nm)
                }
                _ => (g.honest(&latest, &cand.rotation_data_hash(&g.env)), true, AuthSpec::exact(&[Addr::c(9)]), "proof-latest-bypass-stranger"),
            };
            g.rotate(&cand, &pf, bypass, &auth, name);
            g.q_auth_state(&[cand.hash(&g.env)]);
        }
        // ---- constructor with 0..4 initial sets incl. malformed / duplicate in any position
        let good: Vec<WS> = (0..4).map(|_| g.mk_set(2, 0, 2)).collect();
        let bads = malformed_sets(&mut g);
        let mut lists: Vec<(Vec<WS>, String)> = vec![(vec![], "ctor-empty-list".into())];
        for n in 1..=4usize {
            lists.push((good[..n].to_vec(), format!("ctor-good-{n}")));
        }
        for n in 1..=3usize {
            for pos in 0..n {
                let (bad, name) = g.rng.pick(&bads).clone();
                let mut l = good[..n].to_vec();
                l[pos] = bad;
                lists.push((l, format!("ctor-{name}-at-{pos}-of-{n}")));
            }
        }
        for n in 2..=4usize {
            let mut l = good[..n].to_vec();
            let a = g.rng.below(n as u64 - 1) as usize;
            l[n - 1] = l[a].clone();
            lists.push((l, format!("ctor-dup-{a}-{n}")));
        }
        for (i, (l, name)) in lists.into_iter().enumerate() {
            g.new_gateway(&format!("c03-ctor-{r}-{i}-{name}"), l.clone(), 1, 0);
            let hs: Vec<[u8; 32]> = l.iter().map(|s| s.hash(&g.env)).collect();
            g.sets = if g.alive { l.clone() } else { vec![] };
            g.q_auth_state(&hs);
            g.run.op("gw.owner", "q");
            // a failed construction must leave nothing usable; a good one must accept a rotation by its last set
            if g.alive {
                let cand = g.mk_set(2, 0, 2);
                g.rotate_honest(&cand, "after-ctor-rotation");
                g.q_auth_state(&[]);
            }
        }
    }
}

// ------------------------------------------------------------------------------------------------
// C08
// ------------------------------------------------------------------------------------------------
pub fn gen_c08(run: &mut Run, seed: u64, thorough: bool) {
    let mut g = G::new(run, seed);
    let retentions: Vec<u64> = if thorough { vec![0, 1, 2, 3, 5, 10, 15, 16, 17, 20, 33, 1000, 1 << 32, (1 << 32) + 1, u64::MAX - 1, u64::MAX] } else { vec![0, 1, 2, 3, 10, 15, 16, 17, 1 << 32, (1 << 32) + 1, u64::MAX - 1, u64::MAX] };
    let mut sc = 0;
    for &ret in &retentions {
        for ninit in 1..=3usize {
            if !thorough && ninit == 2 && ret > 2 {
                continue;
            }
            sc += 1;
            let init: Vec<WS> = (0..ninit).map(|_| { let k = g.rng.range(1, 3) as usize; g.mk_set(k, 0, 2) }).collect();
            // the retention rules do not depend on the rotation delay: one configuration per retention value runs with a
            // non-zero minimum delay (time is moved forward before each plain rotation; bypass rotations need no waiting)
            let delay: u64 = if ninit == 1 { 500 } else { 0 };
            g.new_gateway(&format!("c08-{sc}-ret{ret}-init{ninit}-delay{delay}"), init, ret, delay);
            // retentions in the teens get a history long enough to reach both ends of the window
            let steps = if ret >= 12 && ret <= 40 { ret as usize + 3 } else { (ret.min(4) + 3) as usize };
            let mut approved_by: Vec<Option<(Msg, Pf)>> = vec![];
            for step in 0..=steps {
                // probe EVERY installed set through each of the three paths (long histories: the two ends and the window's edge)
                let n = g.sets.len();
                for e in 0..n {
                    let age_ = (n - 1 - e) as u64;
                    if n > 8 && !(e < 2 || age_ < 2 || (age_ + 1 >= ret && age_ <= ret + 1)) {
                        continue;
                    }
                    let set = g.sets[e].clone();
                    let age = (n - 1 - e) as u64;
                    let cls = if age == 0 { "latest".to_string() } else if age <= ret { format!("retained-age{}", age.min(9)) } else { format!("expired-age{}", age.min(9)) };
                    // standalone proof check
                    let dh = keccak(format!("probe-{sc}-{step}-{e}").as_bytes());
                    let pf = g.honest(&set, &dh);
                    g.validate_proof(&dh, &pf, &format!("vp-{cls}"));
                    // approval path
                    let m = g.fresh_msg();
                    let pf = g.honest(&set, &approve_data_hash(&g.env, &[m.clone()]));
                    let obs = g.approve(&[m.clone()], &pf, &format!("approve-{cls}"));
                    g.q_msg(&m);
                    if obs.starts_with("ok") && approved_by.len() <= e {
                        approved_by.resize(e + 1, None);
                    }
                    if obs.starts_with("ok") {
                        approved_by[e] = Some((m.clone(), pf.clone()));
                    } else if let Some(Some((m0, pf0))) = approved_by.get(e).cloned() {
                        // what this set approved while it was valid, submitted again with the same signatures now that it is not
                        g.approve(&[m0.clone()], &pf0, &format!("resubmit-approved-{cls}"));
                        g.q_msg(&m0);
                    }
                }
                if step == steps {
                    break;
                }
                // with a non-zero delay and no time passing: the operator's bypass signed by the LATEST set goes through at once
                if delay > 0 && step % 2 == 1 {
                    let cand = g.mk_set(2, 0, 2);
                    let latest = g.sets.last().unwrap().clone();
                    let pf = g.honest(&latest, &cand.rotation_data_hash(&g.env));
                    let op = g.operator.clone();
                    g.rotate(&cand, &pf, true, &AuthSpec::exact(&[op]), "rotate-bypass-latest-inside-window");
                    g.run.op("gw.epoch", "q");
                }
                // rotation attempts by an older set: without bypass (must fail unless latest), with bypass
                let n = g.sets.len();
                if n >= 2 {
                    let e = g.rng.below(n as u64 - 1) as usize;
                    let age = (n - 1 - e) as u64;
                    let set = g.sets[e].clone();
                    let cand = g.mk_set(2, 0, 2);
                    let pf = g.honest(&set, &cand.rotation_data_hash(&g.env));
                    let cls = if age <= ret { "retained" } else { "expired" };
                    g.rotate(&cand, &pf, false, &AuthSpec::None, &format!("rotate-nobypass-old-{cls}"));
                    if delay > 0 || g.rng.chance(1, 2) {
                        let op = g.operator.clone();
                        g.rotate(&cand, &pf, true, &AuthSpec::exact(&[op]), &format!("rotate-bypass-old-{cls}"));
                    }
                }
                // an attempt to RE-INSTALL an earlier (non-latest) set, properly signed by the latest one: refused — a set's
                // place in the history, and with it the end of its validity, is fixed once
                if n >= 2 {
                    let e = g.rng.below(n as u64 - 1) as usize;
                    let old = g.sets[e].clone();
                    let latest = g.sets[n - 1].clone();
                    let pf = g.honest(&latest, &old.rotation_data_hash(&g.env));
                    g.rotate(&old, &pf, false, &AuthSpec::None, "reinstall-earlier-set");
                    g.run.op("gw.epoch", "q");
                }
                // advance history by one honest rotation (if the bypass one above did not already)
                let k = g.rng.range(1, 3) as usize;
                let cand = g.mk_set(k, 0, 2);
                if delay > 0 {
                    let t = g.now + delay;
                    g.set_time(t);
                }
                g.rotate_honest(&cand, "advance");
                g.run.op("gw.epoch", "q");
            }
        }
    }
    // a VERY long history: more newer sets than any narrow counter can hold (255, 256, 257, … ; thorough: past 65 536 is out of
    // reach) — the first sets stay refused, the window still ends where it should
    for ret in if thorough { vec![0u64, 1, 3, 255, 256] } else { vec![0u64, 2] } {
        let first = g.mk_set(1, 0, 0);
        let second = g.mk_set(1, 0, 0);
        g.new_gateway(&format!("c08-long-ret{ret}"), vec![first.clone(), second.clone()], ret, 0);
        let total = 262usize;
        for step in 0..total {
            let cand = g.mk_set(1, 0, 0);
            g.rotate_honest(&cand, "advance-long");
            let n = g.sets.len();
            if n < 250 {
                continue;
            }
            // probe the two oldest sets and the edge of the window
            let mut es: Vec<usize> = vec![0, 1];
            for d in 0..=2u64 {
                let age = ret + d;
                if (age as usize) < n && age > 0 {
                    es.push(n - 1 - age as usize);
                }
            }
            es.dedup();
            for e in es {
                let set = g.sets[e].clone();
                let age = (n - 1 - e) as u64;
                let cls = if age <= ret { "retained" } else { "expired" };
                let dh = keccak(format!("long-{ret}-{step}-{e}").as_bytes());
                let pf = g.honest(&set, &dh);
                g.validate_proof(&dh, &pf, &format!("vp-long-{cls}-age{}", if age > 250 { age.to_string() } else { "edge".into() }));
                if age > 250 && step % 3 == 0 {
                    let m = g.fresh_msg();
                    let pf = g.honest(&set, &approve_data_hash(&g.env, &[m.clone()]));
                    g.approve(&[m.clone()], &pf, &format!("approve-long-{cls}"));
                    let cand = g.mk_set(1, 0, 0);
                    let pf = g.honest(&set, &cand.rotation_data_hash(&g.env));
                    let op = g.operator.clone();
                    g.rotate(&cand, &pf, true, &AuthSpec::exact(&[op]), &format!("rotate-bypass-long-{cls}"));
                }
            }
        }
        g.run.op("gw.epoch", "q");
    }
}

// ------------------------------------------------------------------------------------------------
// C09
// ------------------------------------------------------------------------------------------------
pub fn gen_c09(run: &mut Run, seed: u64, thorough: bool) {
    let mut g = G::new(run, seed);
    let delays: Vec<u64> = vec![0, 1, 10, 1 << 40];
    let reps = if thorough { 25 } else { 2 };
    let mut sc = 0;
    // directed part: every kind of clock-setting event, then ONE probe rotation just before / at / just after the
    // boundary that event defines (a fresh gateway per probe, because a successful probe moves the clock itself)
    for &delay in &[10u64, 1 << 40, u64::MAX - 500, u64::MAX] {
        for first in 0..5 {
            for probe in 0..4 {
                sc += 1;
                g.now = 5000 + g.rng.below(1000);
                let n_init = if first == 4 { 2 } else { 1 };
                let init: Vec<WS> = (0..n_init).map(|_| g.mk_set(2, 0, 2)).collect();
                g.new_gateway(&format!("c09-directed-{sc}-delay{delay}-first{first}-probe{probe}"), init, 3, delay);
                let t0 = g.now;
                let op = g.operator.clone();
                // the event that (re)starts the clock; `clock` = when it happened
                let clock = match first {
                    0 | 4 => t0, // deployment only (one / two initial sets)
                    1 => {
                        // a plain rotation exactly at the boundary
                        g.set_time(t0.saturating_add(delay));
                        let cand = g.mk_set(2, 0, 2);
                        let latest = g.sets.last().unwrap().clone();
                        let pf = g.honest(&latest, &cand.rotation_data_hash(&g.env));
                        g.rotate(&cand, &pf, false, &AuthSpec::None, "directed-nobypass-at");
                        t0.saturating_add(delay)
                    }
                    2 => {
                        // an operator bypass INSIDE the window (one second before the boundary)
                        g.set_time(t0.saturating_add(delay) - 1);
                        let cand = g.mk_set(2, 0, 2);
                        let latest = g.sets.last().unwrap().clone();
                        let pf = g.honest(&latest, &cand.rotation_data_hash(&g.env));
                        g.rotate(&cand, &pf, true, &AuthSpec::exact(&[op.clone()]), "directed-bypass-early");
                        t0.saturating_add(delay) - 1
                    }
                    _ => {
                        // an operator bypass after the window, then a FAILED rotation later (must not move the clock)
                        g.set_time(t0.saturating_add(delay).saturating_add(5));
                        let cand = g.mk_set(2, 0, 2);
                        let latest = g.sets.last().unwrap().clone();
                        let pf = g.honest(&latest, &cand.rotation_data_hash(&g.env));
                        g.rotate(&cand, &pf, true, &AuthSpec::exact(&[op.clone()]), "directed-bypass-late");
                        g.set_time(t0.saturating_add(delay).saturating_add(7));
                        let dup = g.sets[0].clone();
                        let latest = g.sets.last().unwrap().clone();
                        let pf = g.honest(&latest, &dup.rotation_data_hash(&g.env));
                        g.rotate(&dup, &pf, true, &AuthSpec::exact(&[op.clone()]), "directed-fail-duplicate");
                        t0.saturating_add(delay).saturating_add(5)
                    }
                };
                // in every other scenario the owner upgrades the gateway to its own code and migrates (and somebody else tries to)
                // between the clock-setting event and the probe: an administrative step that must not touch the clock
                if sc % 2 == 1 {
                    g.run.op("gw.upgrade_migrate -", "directed-migrate-nobody");
                    g.run.op("gw.upgrade_migrate @", "directed-migrate-owner");
                    g.run.op(&format!("gw.upgrade_migrate {}", op.tok()), "directed-migrate-operator");
                }
                let (t, name) = match probe {
                    0 => (g.now, "same-instant"),
                    1 => (clock.saturating_add(delay) - 1, "before"),
                    2 => (clock.saturating_add(delay), "at"),
                    _ => (clock.saturating_add(delay).saturating_add(1), "after"),
                };
                g.set_time(t.max(g.now));
                let cand = g.mk_set(2, 0, 2);
                let latest = g.sets.last().unwrap().clone();
                let pf = g.honest(&latest, &cand.rotation_data_hash(&g.env));
                g.rotate(&cand, &pf, false, &AuthSpec::None, &format!("directed-probe-{name}"));
                g.run.op("gw.epoch", "q");
            }
        }
    }
    // deployment at ledger time ZERO counts like any other: with delay 10 the first plain rotation is refused at 0, 5 and 9,
    // accepted at 10 (a fresh gateway per probe)
    for probe_at in [0u64, 5, 9, 10, 11] {
        sc += 1;
        g.now = 0;
        let init = vec![g.mk_set(2, 0, 2)];
        g.new_gateway(&format!("c09-genesis-{sc}-probe{probe_at}"), init, 3, 10);
        g.set_time(probe_at);
        let cand = g.mk_set(2, 0, 2);
        let latest = g.sets.last().unwrap().clone();
        let pf = g.honest(&latest, &cand.rotation_data_hash(&g.env));
        g.rotate(&cand, &pf, false, &AuthSpec::None, &format!("genesis-deployment-probe-at-{probe_at}"));
        g.run.op("gw.epoch", "q");
    }
    g.now = 5000;
    for rep in 0..reps {
        for &delay in &delays {
            sc += 1;
            g.now = 1000 + g.rng.below(1000) + if delay > 1000 { 0 } else { 0 };
            let s0 = g.mk_set(2, 0, 2);
            g.new_gateway(&format!("c09-{sc}-delay{delay}"), vec![s0], 3, delay);
            let mut last = g.now; // deployment counts as a rotation
            let steps = if thorough { 28 } else { 22 };
            let stranger = Addr::c(9);
            let mut former_op: Option<Addr> = None;
            for step in 0..steps {
                // choose a time offset relative to the boundary
                let target = last.saturating_add(delay);
                let choice = g.rng.below(7);
                let t = match choice {
                    0 => g.now,                                  // no time passing
                    1 => target.saturating_sub(1).max(g.now),    // one second before the boundary
                    2 => target.max(g.now),                      // exactly at the boundary
                    3 => target.saturating_add(1).max(g.now),    // one after
                    4 => g.now + g.rng.below(5),
                    5 => g.now + delay / 2,
                    _ => target.saturating_add(g.rng.below(100000)).max(g.now),
                };
                g.set_time(t);
                let tcls = if t < target { "early" } else if t == target { "at" } else { "late" };
                let cand = g.mk_set(2, 0, 2);
                let latest = g.sets.last().unwrap().clone();
                let kind = g.rng.below(12);
                let op = g.operator.clone();
                let owner = g.owner.clone();
                let obs;
                match kind {
                    0..=3 => {
                        let pf = g.honest(&latest, &cand.rotation_data_hash(&g.env));
                        obs = g.rotate(&cand, &pf, false, &AuthSpec::None, &format!("nobypass-{tcls}"));
                    }
                    4 | 5 => {
                        let n = g.sets.len();
                        let lo = n.saturating_sub(1 + g.retention as usize);
                        let pick = lo + g.rng.below((n - lo) as u64) as usize;
                        let signer_set = g.sets[pick].clone();
                        let pf = g.honest(&signer_set, &cand.rotation_data_hash(&g.env));
                        obs = g.rotate(&cand, &pf, true, &AuthSpec::exact(&[op]), &format!("bypass-operator-{tcls}"));
                    }
                    6 => {
                        // signed by the latest OR an older, still retained set: the operator check must not depend on which
                        let n = g.sets.len();
                        let lo = n.saturating_sub(1 + g.retention as usize);
                        let pick = lo + g.rng.below((n - lo) as u64) as usize;
                        let signer_set = g.sets[pick].clone();
                        let pf = g.honest(&signer_set, &cand.rotation_data_hash(&g.env));
                        let who = match g.rng.below(4) {
                            0 => (AuthSpec::exact(&[owner]), "owner"),
                            1 => (AuthSpec::exact(&[stranger.clone()]), "stranger"),
                            2 => (AuthSpec::None, "nobody"),
                            _ => (AuthSpec::List(vec![(op, true)]), "operator-other-args"),
                        };
                        obs = g.rotate(&cand, &pf, true, &who.0, &format!("bypass-unauth-{}-{tcls}", who.1));
                    }
                    7 => {
                        if let Some(f) = former_op.clone() {
                            let pf = g.honest(&latest, &cand.rotation_data_hash(&g.env));
                            obs = g.rotate(&cand, &pf, true, &AuthSpec::exact(&[f]), &format!("bypass-former-operator-{tcls}"));
                        } else {
                            // transfer operatorship
                            let newop = Addr::c(20 + (step as u8 % 5));
                            let o = g.run.op(&format!("gw.transfer_operatorship {} {}", newop.tok(), AuthSpec::exact(&[op.clone()]).tok()), "transfer-operatorship");
                            if o.starts_with("ok") {
                                former_op = Some(op);
                                g.operator = newop;
                            }
                            g.run.op("gw.operator", "q");
                            continue;
                        }
                    }
                    8 => {
                        // failed: bad candidate set (clock must not move)
                        let mut bad = cand.clone();
                        bad.threshold = 0;
                        let pf = g.honest(&latest, &bad.rotation_data_hash(&g.env));
                        let bypass = g.rng.chance(1, 2);
                        let auth = if bypass { AuthSpec::exact(&[op]) } else { AuthSpec::None };
                        obs = g.rotate(&bad, &pf, bypass, &auth, &format!("fail-badset-{tcls}"));
                    }
                    9 => {
                        // failed: bad proof
                        let d = g.signers_digest(&latest, &cand.rotation_data_hash(&g.env));
                        let pf = g.proof(&latest, &d, &[SigMode::Unsigned]);
                        let bypass = g.rng.chance(1, 2);
                        let auth = if bypass { AuthSpec::exact(&[op]) } else { AuthSpec::None };
                        obs = g.rotate(&cand, &pf, bypass, &auth, &format!("fail-badproof-{tcls}"));
                    }
                    10 => {
                        // failed: duplicate of an installed set (fails AFTER the clock was written -> must be rolled back)
                        let dup = g.sets[0].clone();
                        let pf = g.honest(&latest, &dup.rotation_data_hash(&g.env));
                        let bypass = g.rng.chance(1, 2);
                        let auth = if bypass { AuthSpec::exact(&[op]) } else { AuthSpec::None };
                        obs = g.rotate(&dup, &pf, bypass, &auth, &format!("fail-duplicate-{tcls}"));
                    }
                    _ => {
                        // an approval in between must not touch the clock
                        let m = g.fresh_msg();
                        let pf = g.honest(&latest, &approve_data_hash(&g.env, &[m.clone()]));
                        g.approve(&[m], &pf, "approve-between");
                        continue;
                    }
                }
                if obs.starts_with("ok") {
                    last = t;
                }
                g.run.op("gw.epoch", "q");
            }
            let _ = rep;
        }
    }
}

// ------------------------------------------------------------------------------------------------
// C13
// ------------------------------------------------------------------------------------------------
pub fn gen_c13(run: &mut Run, seed: u64, thorough: bool) {
    let mut g = G::new(run, seed);
    let s0 = g.mk_set(2, 0, 2);
    g.new_gateway("c13", vec![s0.clone()], 1, 0);
    // some message state so that "changes no gateway state" is observable
    let m0 = g.fresh_msg();
    let pf = g.honest(&s0, &approve_data_hash(&g.env, &[m0.clone()]));
    g.approve(&[m0.clone()], &pf, "setup-approve");
    let mut sizes: Vec<usize> = vec![0, 1, 31, 32, 33, 135, 136, 137, 272, 4096, 8192, 8193, 16385, 65537, 131072, 131073, 300001];
    if thorough {
        sizes.push(40960);
        sizes.extend([2, 64, 100, 271, 273, 1000]);
    }
    let chains: Vec<Vec<u8>> = vec![b"ethereum".to_vec(), vec![], "цепь-链".as_bytes().to_vec(), vec![b'x'; 300]];
    let dests: Vec<Vec<u8>> = vec![b"0x4EFE356BEDeCC817cb89B4E9b796dB8bC188DC59".to_vec(), vec![], "адрес".as_bytes().to_vec()];
    let c_sender = Addr::c(30);
    let a_sender = Addr::a(31);
    let other = Addr::c(32);
    for (i, &sz) in sizes.iter().enumerate() {
        let payload = g.rng.bytes(sz);
        let chain = chains[i % chains.len()].clone();
        let dest = dests[i % dests.len()].clone();
        let modes: Vec<(Addr, AuthSpec, &str)> = vec![
            (c_sender.clone(), AuthSpec::exact(&[c_sender.clone()]), "contract-sender-auth"),
            (c_sender.clone(), AuthSpec::exact(&[other.clone()]), "contract-sender-other-addr"),
            (c_sender.clone(), AuthSpec::List(vec![(c_sender.clone(), true)]), "contract-sender-other-args"),
            (c_sender.clone(), AuthSpec::None, "contract-sender-nobody"),
            (a_sender.clone(), AuthSpec::All, "account-sender-all"),
            (a_sender.clone(), AuthSpec::None, "account-sender-nobody"),
            // the gateway's own address as sender is nobody special: it still has to authorise
            (g.gwaddr.clone(), AuthSpec::None, "gateway-as-sender-nobody"),
            (g.gwaddr.clone(), AuthSpec::exact(&[other.clone()]), "gateway-as-sender-other-addr"),
            (g.owner.clone(), AuthSpec::None, "owner-as-sender-nobody"),
            (g.operator.clone(), AuthSpec::exact(&[g.owner.clone()]), "operator-as-sender-owner-auth"),
        ];
        for (sender, auth, class) in modes {
            g.run.op(
                &format!("gw.call_contract {} {} {} {} {}", sender.tok(), hx(&chain), hx(&dest), hx(&payload), auth.tok()),
                &format!("{class}-len{}", if sz > 300 { 999 } else { sz }),
            );
        }
        // state unchanged
        g.run.op("gw.epoch", "q");
        g.q_msg(&m0);
    }
    // calls made INSIDE a migration window (after the owner's `upgrade`, before the `migrate`): announced like any other; the
    // window opens and closes as the model says (a migration without an upgrade, and a second one, are refused)
    {
        g.run.op("gw.migrate @", "migrate-without-upgrade");
        g.run.op("gw.upgrade -", "upgrade-nobody");
        g.run.op("gw.upgrade @", "upgrade-owner");
        for (k, sz) in [0usize, 5, 40].iter().enumerate() {
            let payload = g.rng.bytes(*sz);
            g.run.op(
                &format!("gw.call_contract {} {} {} {} {}", c_sender.tok(), hx(b"ethereum"), hx(b"0xdest"), hx(&payload), AuthSpec::exact(&[c_sender.clone()]).tok()),
                &format!("contract-sender-auth-inside-migration-window-{k}"),
            );
            g.run.op(
                &format!("gw.call_contract {} {} {} {} -", c_sender.tok(), hx(b"ethereum"), hx(b"0xdest"), hx(&payload)),
                "contract-sender-nobody-inside-migration-window",
            );
        }
        let m = g.fresh_msg();
        let pf = g.honest(&s0, &approve_data_hash(&g.env, &[m.clone()]));
        g.approve(&[m.clone()], &pf, "approve-inside-migration-window");
        g.q_msg(&m);
        g.run.op(&format!("gw.migrate {}", g.operator.tok()), "migrate-operator");
        g.run.op("gw.migrate @", "migrate-owner");
        g.run.op("gw.migrate @", "migrate-owner-again");
        g.run.op(
            &format!("gw.call_contract {} {} {} {} {}", c_sender.tok(), hx(b"ethereum"), hx(b"0xdest"), hx(b"after"), AuthSpec::exact(&[c_sender.clone()]).tok()),
            "contract-sender-auth-after-migration",
        );
        g.run.op("gw.epoch", "q");
        g.q_msg(&m0);
    }
    // destinations that RELATE to the other inputs: the sender's own address string, the gateway's, the destination chain
    // name, the payload as text — an announcement is made whatever the destination string says
    {
        let strkey = |a: &Addr, env: &soroban_sdk::Env| -> Vec<u8> {
            let s = a.sdk(env).to_string();
            let mut b = vec![0u8; s.len() as usize];
            s.copy_into_slice(&mut b);
            b
        };
        let own = strkey(&c_sender, &g.env);
        let gwk = strkey(&g.gwaddr.clone(), &g.env);
        for (dest, chain, nm) in [
            (own.clone(), b"ethereum".to_vec(), "dest-is-sender-strkey"),
            (gwk.clone(), b"ethereum".to_vec(), "dest-is-gateway-strkey"),
            (b"ethereum".to_vec(), b"ethereum".to_vec(), "dest-equals-chain"),
            (own.clone(), own.clone(), "dest-and-chain-are-sender-strkey"),
        ] {
            for (auth, acl) in [(AuthSpec::exact(&[c_sender.clone()]), "auth"), (AuthSpec::None, "nobody")] {
                g.run.op(
                    &format!("gw.call_contract {} {} {} {} {}", c_sender.tok(), hx(&chain), hx(&dest), hx(b"relation"), auth.tok()),
                    &format!("{nm}-{acl}"),
                );
            }
        }
    }
    let extra = if thorough { 500 } else { 40 };
    for _ in 0..extra {
        let sz = g.rng.below(300) as usize;
        let payload = g.rng.bytes(sz);
        let chain = g.rng.bytes(g.rng.0 as usize % 20);
        // strings are arbitrary bytes in Soroban; keep to valid UTF-8 by hex-ish mapping
        let chain: Vec<u8> = chain.iter().map(|b| b'a' + (b % 26)).collect();
        let dest: Vec<u8> = g.rng.bytes(g.rng.0 as usize % 50).iter().map(|b| b'0' + (b % 10)).collect();
        let authd = g.rng.chance(2, 3);
        let auth = if authd { AuthSpec::exact(&[c_sender.clone()]) } else { AuthSpec::exact(&[other.clone()]) };
        g.run.op(
            &format!("gw.call_contract {} {} {} {} {}", c_sender.tok(), hx(&chain), hx(&dest), hx(&payload), auth.tok()),
            if authd { "random-auth" } else { "random-unauth" },
        );
    }
    g.run.op("gw.epoch", "q");
    g.q_msg(&m0);
}
