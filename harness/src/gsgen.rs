//! Generator for C14 (gas service balance equation).
#![allow(dead_code)]
use crate::common::*;
use crate::Run;

fn parse_i128(obs: &str) -> i128 {
    obs.split(' ').nth(1).and_then(|t| t.strip_prefix('X')).and_then(|s| s.parse().ok()).unwrap_or(0)
}

/// amounts of every width: 2^k + d around each limb boundary of an i128, paid / topped up by a spender who can afford them and
/// by one who cannot, then paid out again by both payout routes — the amount taken, the amount announced and the amount that
/// arrives are all the stated one
fn wide_amounts(run: &mut Run) {
    let gs = Addr::c(150);
    let (owner, collector, admin) = (Addr::c(1), Addr::c(2), Addr::c(5));
    let (whale, poor, sender, recv) = (Addr::c(13), Addr::c(14), Addr::c(30), Addr::c(20));
    for (sc, token_kind) in ["sac", "itok"].iter().enumerate() {
        run.scenario("gs", &format!("c14-wide-{token_kind}"));
        run.op("time 1000 10", "time");
        run.op(&format!("gs.new {} {} {}", gs.tok(), owner.tok(), collector.tok()), "construct");
        let o = if sc == 0 { run.op(&format!("sac.new {}", admin.tok()), "env-token") } else { run.op(&format!("itok.new {} {}", Addr::c(210).tok(), admin.tok()), "env-token-interchain") };
        let tok = match o.split(' ').nth(1) {
            Some(a) => Addr::parse(a),
            None => continue,
        };
        run.op(&format!("sac.mint {} {} {}", tok.tok(), whale.tok(), 1i128 << 110), "env-mint-whale");
        run.op(&format!("sac.mint {} {} 1000", tok.tok(), poor.tok()), "env-mint");
        let mut n = 0;
        for k in [15u32, 16, 31, 32, 33, 47, 48, 62, 63, 64, 65, 95, 96, 97, 100] {
            for d in [0i128, 1, 7] {
                n += 1;
                let amt = (1i128 << k) + d;
                let cls = format!("2^{k}+{d}");
                if n % 2 == 0 {
                    run.op(&format!("gs.add_gas {} {} {} {} {} {}", sender.tok(), hx(b"msg-1"), whale.tok(), tok.tok(), amt, whale.tok()), &format!("add-wide-{cls}"));
                    run.op(&format!("gs.add_gas {} {} {} {} {} {}", sender.tok(), hx(b"msg-1"), poor.tok(), tok.tok(), amt, poor.tok()), &format!("add-wide-unaffordable-{cls}"));
                } else {
                    run.op(&format!("gs.pay_gas {} {} {} {} {} {} {} {} {}", sender.tok(), hx(b"ethereum"), hx(b"0xdest"), hx(b"p"), whale.tok(), tok.tok(), amt, hx(b""), whale.tok()), &format!("pay-wide-{cls}"));
                    run.op(&format!("gs.pay_gas {} {} {} {} {} {} {} {} *", sender.tok(), hx(b"ethereum"), hx(b"0xdest"), hx(b"p"), poor.tok(), tok.tok(), amt, hx(b"")), &format!("pay-wide-unaffordable-everyone-{cls}"));
                }
                for who in [&gs, &whale, &poor] {
                    run.op(&format!("sac.balance {} {}", tok.tok(), who.tok()), "q");
                }
                if n % 3 == 0 {
                    run.op(&format!("gs.collect_fees {} {} {} {}", recv.tok(), tok.tok(), amt, collector.tok()), &format!("collect-wide-{cls}"));
                } else {
                    run.op(&format!("gs.refund {} {} {} {} {}", hx(b"msg-7"), whale.tok(), tok.tok(), amt, collector.tok()), &format!("refund-wide-{cls}"));
                }
                for who in [&gs, &whale, &recv] {
                    run.op(&format!("sac.balance {} {}", tok.tok(), who.tok()), "q");
                }
            }
        }
    }
}

pub fn gen_c14(run: &mut Run, seed: u64, thorough: bool) {
    let mut rng = Rng::new(seed);
    wide_amounts(run);
    let histories = if thorough { 250 } else { 40 };
    let len = if thorough { 35 } else { 30 };
    let gs = Addr::c(150);
    let owner = Addr::c(1);
    let admin = Addr::c(5);
    let stranger = Addr::c(99);
    for h in 0..histories {
        // every fifth history: ONE address is owner and gas collector at construction (ownership may move later; the
        // collector role has no transfer entry point and must stay where it is)
        let collector = if h % 5 == 4 { owner.clone() } else { Addr::c(2) };
        run.scenario("gs", &format!("c14-{h}"));
        run.op("time 1000 10", "time");
        run.op(&format!("gs.new {} {} {}", gs.tok(), owner.tok(), collector.tok()), "construct");
        let ntok = if thorough { 3 } else { 2 };
        let mut tokens: Vec<Addr> = vec![];
        for _ in 0..ntok {
            let o = run.op(&format!("sac.new {}", admin.tok()), "env-token");
            tokens.push(Addr::parse(o.split(' ').nth(1).unwrap()));
        }
        // every third history: one gas token is the repository's own token contract (current source) instead of an asset contract
        if h % 3 == 2 {
            let o = run.op(&format!("itok.new {} {}", Addr::c(210).tok(), admin.tok()), "env-token-interchain");
            if let Some(a) = o.split(' ').nth(1) {
                tokens[0] = Addr::parse(a);
            }
        }
        let spenders: Vec<Addr> = (10..13).map(Addr::c).collect();
        // receivers include the collector and the SERVICE ITSELF (a payout to itself must leave its balance where it was)
        let receivers: Vec<Addr> = vec![Addr::c(20), Addr::c(21), collector.clone(), gs.clone()];
        for t in &tokens {
            for s in &spenders {
                if rng.chance(3, 4) {
                    run.op(&format!("sac.mint {} {} {}", t.tok(), s.tok(), rng.range(5, 300)), "env-mint");
                }
            }
        }
        // one receiver is (in half of the tokens) so rich that a payout to it overflows inside the TOKEN contract:
        // the service's own checks pass, the transfer fails, and the whole call must fail with it
        for t in &tokens {
            if rng.chance(1, 2) {
                run.op(&format!("sac.mint {} {} {}", t.tok(), receivers[1].tok(), i128::MAX - rng.range(0, 12) as i128), "env-mint-near-max");
            }
        }
        let mut cur_owner = owner.clone();
        for _ in 0..len {
            let tok = if rng.chance(1, 25) { Addr::c(77) } else { rng.pick(&tokens).clone() };
            let tcls = if tokens.contains(&tok) { "" } else { "-nontoken" };
            let spender = rng.pick(&spenders).clone();
            let receiver = rng.pick(&receivers).clone();
            let sender = Addr::c(30 + rng.below(2) as u8);
            let kind = rng.below(12);
            let svc_bal = if tcls.is_empty() { parse_i128(&run.op(&format!("sac.balance {} {}", tok.tok(), gs.tok()), "q")) } else { 0 };
            let sp_bal = if tcls.is_empty() { parse_i128(&run.op(&format!("sac.balance {} {}", tok.tok(), spender.tok()), "q")) } else { 0 };
            // who authorises
            let mut pick_auth = |right: &Addr, rng: &mut Rng, has_subs: bool| -> (String, &'static str) {
                match rng.below(22) {
                    0 => ("-".into(), "nobody"),
                    1 => (stranger.tok(), "stranger"),
                    2 => (cur_owner.tok(), if *right == cur_owner { "right" } else { "owner" }),
                    3 => (collector.tok(), if *right == collector { "right" } else { "collector" }),
                    4 => (sender.tok(), if *right == sender { "right" } else { "sender" }),
                    // (a live contract is never given a mock authorisation: the test host would replace it)
                    5 if receiver != gs => (receiver.tok(), if *right == receiver { "right" } else { "receiver" }),
                    6 => (format!("{}!", right.tok()), "right-other-args"),
                    7 if has_subs => (format!("{}~", right.tok()), "right-root-only"),
                    // blanket authorisation (every address authorises whatever is asked of it, with whatever arguments): shows
                    // sub-calls whose arguments differ from the stated ones, which exact authorisation trees would refuse
                    8 | 9 => ("*".into(), "everyone"),
                    _ => (right.tok(), "right"),
                }
            };
            match kind {
                0..=3 => {
                    let (amt, ac) = match rng.below(9) {
                        0 => (0, "amt0"),
                        1 => (-1, "amt-neg"),
                        2 => (sp_bal, "amt-bal"),
                        3 => (sp_bal + 1, "amt-bal+1"),
                        4 => (1, "amt1"), // the smallest positive amount
                        5 => (2, "amt2"),
                        _ => (rng.range(1, 40) as i128, "amt-small"),
                    };
                    let (auth, aucl) = pick_auth(&spender, &mut rng, true);
                    let aucl = if aucl == "right-root-only" && false { "right" } else { aucl };
                    // now and then the SERVICE ITSELF is the spender, under the blanket authorisation (the only way a live contract
                    // can authorise in the test host): the transfer is from itself to itself, the event still states the amount
                    let (spender, auth, aucl) = if rng.chance(1, 12) { (gs.clone(), "*".to_string(), "service-as-spender-everyone") } else { (spender.clone(), auth, aucl) };
                    if kind < 2 {
                        let payload = rng.bytes(rng.0 as usize % 40);
                        run.op(
                            &format!("gs.pay_gas {} {} {} {} {} {} {} {} {}", sender.tok(), hx(b"ethereum"), hx(b"0xdest"), hx(&payload), spender.tok(), tok.tok(), amt, hx(&rng.bytes(rng.0 as usize % 4)), auth),
                            &format!("pay{tcls}-{ac}-{aucl}"),
                        );
                    } else {
                        run.op(
                            &format!("gs.add_gas {} {} {} {} {} {}", sender.tok(), hx(b"msg-1"), spender.tok(), tok.tok(), amt, auth),
                            &format!("add{tcls}-{ac}-{aucl}"),
                        );
                    }
                }
                4..=6 => {
                    let (amt, ac) = match rng.below(9) {
                        0 => (0, "amt0"),
                        1 => (-1, "amt-neg"),
                        2 => (svc_bal, "amt-exact"),
                        3 => (svc_bal + 1, "amt-exact+1"),
                        4 => (svc_bal - 1, "amt-exact-1"),
                        5 => (1, "amt1"),
                        6 => (2, "amt2"),
                        _ => (rng.range(1, 20) as i128, "amt-small"),
                    };
                    let (auth, aucl) = pick_auth(&collector, &mut rng, false);
                    run.op(&format!("gs.collect_fees {} {} {} {}", receiver.tok(), tok.tok(), amt, auth), &format!("collect{tcls}-{ac}-{aucl}"));
                }
                7 | 8 => {
                    let (amt, ac) = match rng.below(9) {
                        0 => (0, "amt0"),
                        1 => (-1, "amt-neg"),
                        2 => (svc_bal, "amt-exact"),
                        3 => (svc_bal + 1, "amt-exact+1"),
                        4 => (1, "amt1"),
                        5 => (2, "amt2"),
                        _ => (rng.range(1, 20) as i128, "amt-small"),
                    };
                    let (auth, aucl) = pick_auth(&collector, &mut rng, false);
                    run.op(&format!("gs.refund {} {} {} {} {}", hx(b"msg-7"), receiver.tok(), tok.tok(), amt, auth), &format!("refund{tcls}-{ac}-{aucl}"));
                }
                9 if rng.chance(1, 3) => {
                    let pool: Vec<String> = [Addr::c(20), stranger.clone(), collector.clone(), spender.clone()].iter().map(|a| a.tok()).collect();
                    let tl: Vec<String> = tokens.iter().map(|t| t.tok()).collect();
                    run.op(&format!("gs.probe_extra {} {}", pool.join(","), tl.join(",")), "probe-unknown-entry-points");
                }
                9 => {
                    // user-to-user transfer (never touches the service)
                    let to = rng.pick(&spenders).clone();
                    let amt = rng.range(0, 30) as i128;
                    run.op(&format!("sac.transfer {} {} {} {} {}", tok.tok(), spender.tok(), to.tok(), amt, spender.tok()), &format!("env-user-transfer{tcls}"));
                }
                10 => {
                    if rng.chance(1, 3) {
                        let new = if rng.chance(1, 2) { Addr::c(3) } else { owner.clone() };
                        let (auth, aucl) = pick_auth(&cur_owner.clone(), &mut rng, false);
                        let o = run.op(&format!("gs.transfer_ownership {} {}", new.tok(), auth), &format!("transfer_ownership-{aucl}"));
                        if o.starts_with("ok") {
                            cur_owner = new;
                        }
                        run.op("gs.owner", "q");
                    } else {
                        run.op(&format!("sac.mint {} {} {}", tok.tok(), spender.tok(), rng.range(1, 50)), &format!("env-mint{tcls}"));
                    }
                }
                _ => {
                    run.op("gs.collector", "q");
                }
            }
            // observe every balance that matters
            for t in &tokens {
                run.op(&format!("sac.balance {} {}", t.tok(), gs.tok()), "q");
                let s = rng.pick(&spenders).clone();
                run.op(&format!("sac.balance {} {}", t.tok(), s.tok()), "q");
                run.op(&format!("sac.balance {} {}", t.tok(), spender.tok()), "q");
                run.op(&format!("sac.balance {} {}", t.tok(), receiver.tok()), "q");
                run.op(&format!("sac.balance {} {}", t.tok(), collector.tok()), "q");
            }
        }
    }
}
