//! Executable-apps world (C16): real gateway + the shipped Example app + a minimal app that uses the
//! interface's validation helper, + gas service and an asset contract for Example::send.
#![allow(dead_code)]
use crate::common::*;
use crate::gs::sac_exec;
use crate::gw::GwWorld;
use axelar_gas_service::AxelarGasService;
use axelar_gateway::executable::AxelarExecutableInterface;
use axelar_soroban_std::types::Token;
use example::{Example, ExampleClient};
use soroban_sdk::{contract, contractimpl, panic_with_error, symbol_short, Address, Bytes, Env, IntoVal, String as SString, Symbol, Val, Vec as SVec};

#[contract]
pub struct MiniApp;

#[contractimpl]
impl AxelarExecutableInterface for MiniApp {
    fn gateway(env: &Env) -> Address {
        env.storage().instance().get(&symbol_short!("gateway")).unwrap()
    }
    fn execute(env: Env, source_chain: SString, message_id: SString, source_address: SString, payload: Bytes) {
        Self::validate_message(&env, &source_chain, &message_id, &source_address, &payload)
            .unwrap_or_else(|e| panic_with_error!(env, e));
        let n: u32 = env.storage().instance().get(&symbol_short!("count")).unwrap_or(0);
        env.storage().instance().set(&symbol_short!("count"), &(n + 1));
        env.storage().instance().set(&symbol_short!("last"), &payload);
    }
}
#[contractimpl]
impl MiniApp {
    pub fn __constructor(env: Env, gateway: Address) {
        env.storage().instance().set(&symbol_short!("gateway"), &gateway);
    }
    pub fn count(env: Env) -> u32 {
        env.storage().instance().get(&symbol_short!("count")).unwrap_or(0)
    }
    pub fn last(env: Env) -> Bytes {
        env.storage().instance().get(&symbol_short!("last")).unwrap_or(Bytes::new(&env))
    }
}

pub struct ExWorld {
    pub gw: GwWorld,
    pub example: Option<Address>,
    pub mini: Option<Address>,
    pub gs: Option<Address>,
}

impl ExWorld {
    pub fn new() -> Self {
        ExWorld { gw: GwWorld::new(), example: None, mini: None, gs: None }
    }
    fn app_events(&mut self) -> String {
        let mut watch = vec![];
        if let Some(g) = &self.gw.gw {
            watch.push(g.clone());
        }
        for a in [&self.example, &self.mini, &self.gs].into_iter().flatten() {
            watch.push(a.clone());
        }
        new_events(&self.gw.env, &mut self.gw.cursor, &watch)
    }
    pub fn exec(&mut self, t: &[&str]) -> (String, String) {
        let env = self.gw.env.clone();
        if t[0].starts_with("gw.") || t[0] == "time" || t[0] == "tick" {
            return self.gw.exec(t);
        }
        if let Some(r) = sac_exec(&env, t) {
            let _ = self.app_events();
            return r;
        }
        match t[0] {
            "probe_extra" => {
                // see gw.rs: exported functions unknown to the model, called without any authorisation
                let known: [&str; 5] = ["gateway", "execute", "__constructor", "gas_service", "send"];
                let addrs: Vec<Address> = t[1].split(',').filter(|x| !x.is_empty() && *x != "-").map(|x| Addr::parse(x).sdk(&env)).collect();
                let toks: Vec<(Address, i128)> = t[2].split(',').filter(|x| !x.is_empty() && *x != "-").map(|x| (Addr::parse(x).sdk(&env), 1i128)).collect();
                let mut names = vec![];
                if let Some(c) = self.example.clone() {
                    names = probe_unknown_entry_points(&env, &c, "/repo/contracts/example/src/contract.rs", &known, &addrs, &toks);
                }
                let _ = self.app_events();
                ("ok".into(), format!("probed={}", names.join(",")))
            }
            "ex.new" => {
                // ex.new <example-addr> <mini-addr> <gas-service-addr>   (the gateway must exist)
                let gw = self.gw.gw.clone().expect("gateway first");
                let (e, m, g) = (Addr::parse(t[1]).sdk(&env), Addr::parse(t[2]).sdk(&env), Addr::parse(t[3]).sdk(&env));
                env.register_at(&g, AxelarGasService, (Addr::c(1).sdk(&env), Addr::c(2).sdk(&env)));
                env.register_at(&e, Example, (gw.clone(), g.clone()));
                env.register_at(&m, MiniApp, (gw.clone(),));
                self.example = Some(e);
                self.mini = Some(m);
                self.gs = Some(g);
                let _ = self.app_events();
                ("ok".into(), String::new())
            }
            "app.execute" => {
                // app.execute <app> <chain> <id> <src> <payload>
                let app = Addr::parse(t[1]).sdk(&env);
                let args: SVec<Val> = (sstr(&env, &unhx(t[2])), sstr(&env, &unhx(t[3])), sstr(&env, &unhx(t[4])), sbytes(&env, &unhx(t[5]))).into_val(&env);
                env.set_auths(&[]);
                let r = guarded(|| env.try_invoke_contract::<Val, soroban_sdk::Error>(&app, &Symbol::new(&env, "execute"), args));
                let ev = self.app_events();
                match r {
                    Ok(Ok(Ok(_))) => (format!("ok{ev}"), String::new()),
                    other => ("err".into(), short_err(&format!("{other:?}"))),
                }
            }
            "app.count" => {
                let c = MiniAppClient::new(&env, self.mini.as_ref().unwrap());
                (format!("ok u{} x{}", c.count(), hx(&c.last().to_alloc_vec())), String::new())
            }
            "ex.send" => {
                // ex.send <caller> <chain> <dest> <msg> <token> <amount> <auth>
                let ex = self.example.clone().unwrap();
                let gs = self.gs.clone().unwrap();
                let gw = self.gw.gw.clone().unwrap();
                let caller = Addr::parse(t[1]).sdk(&env);
                let (chain, dest) = (sstr(&env, &unhx(t[2])), sstr(&env, &unhx(t[3])));
                let msg = sbytes(&env, &unhx(t[4]));
                let token = Token { address: Addr::parse(t[5]).sdk(&env), amount: pi128(t[6]) };
                let root: SVec<Val> = (caller.clone(), chain.clone(), dest.clone(), msg.clone(), token.clone()).into_val(&env);
                let mut m2 = unhx(t[4]);
                m2.push(9);
                let wrong: SVec<Val> = (caller.clone(), chain.clone(), dest.clone(), sbytes(&env, &m2), token.clone()).into_val(&env);
                let xfer = Inv::new(&token.address, "transfer", (caller.clone(), gs.clone(), token.amount).into_val(&env), vec![]);
                let pay = Inv::new(&gs, "pay_gas", (ex.clone(), chain.clone(), dest.clone(), msg.clone(), caller.clone(), token.clone(), Bytes::new(&env)).into_val(&env), vec![xfer]);
                let tree = Inv::new(&ex, "send", root, vec![pay]);
                install_auth_tree(&env, t[7], &tree, wrong);
                let _ = gw;
                let r = guarded(|| ExampleClient::new(&env, &ex).try_send(&caller, &chain, &dest, &msg, &token));
                let ev = self.app_events();
                match r {
                    Ok(Ok(Ok(()))) => (format!("ok{ev}"), String::new()),
                    other => ("err".into(), short_err(&format!("{other:?}"))),
                }
            }
            other => panic!("unknown example op {other}"),
        }
    }
}

pub fn gen_c16(run: &mut crate::Run, seed: u64, thorough: bool) {
    use crate::gw::*;
    use crate::gwgen::G;
    let histories = if thorough { 250 } else { 30 };
    let example = Addr::c(180);
    let mini = Addr::c(181);
    let gsaddr = Addr::c(182);
    let other_app = Addr::c(183);
    let mut g = G::new(run, seed);
    for h in 0..histories {
        let ws = g.mk_set(2, 0, 2);
        g.run.scenario("ex", &format!("c16-{h}"));
        g.domain = keccak(format!("domain-c16-{h}").as_bytes());
        g.sets.clear();
        g.set_time(1000);
        g.run.op(
            &format!("gw.new {} {} {} {} 0 1 {}", g.gwaddr.tok(), g.owner.tok(), g.operator.tok(), hex::encode(g.domain), sets_tok(&[ws.clone()])),
            "construct",
        );
        g.sets = vec![ws.clone()];
        g.run.op(&format!("ex.new {} {} {}", example.tok(), mini.tok(), gsaddr.tok()), "construct-apps");
        for step in 0..(if thorough { 14 } else { 12 }) {
            let app = if g.rng.chance(1, 2) { example.clone() } else { mini.clone() };
            let aname = if app == example { "example" } else { "mini" };
            let payload = g.rng.bytes(g.rng.0 as usize % 24);
            // chain names, ids and sender strings of every length class (short; 20 / 21; 32 / 33; long)
            let lens = [20usize, 21, 32, 33, 70, 300];
            let chain = match g.rng.below(6) {
                0 | 1 | 2 => format!("chain{}", g.rng.below(2)).into_bytes(),
                _ => vec![b'c'; *g.rng.pick(&lens)],
            };
            let mut id = format!("id-{h}-{step}").into_bytes();
            if g.rng.chance(1, 6) {
                id.resize(*g.rng.pick(&lens), b'i');
            }
            let mut src = b"0xsender".to_vec();
            if g.rng.chance(1, 6) {
                src.resize(*g.rng.pick(&lens), b's');
            }
            let m = Msg { chain: chain.clone(), id: id.clone(), src: src.clone(), contract: app.clone(), ph: keccak(&payload) };
            // deviation class
            let dev = g.rng.below(11);
            let mut approved = m.clone();
            let mut deliver = (chain.clone(), id.clone(), src.clone(), payload.clone());
            let cls = match dev {
                0 => "never-approved",
                1 => {
                    approved.contract = other_app.clone();
                    "approved-for-another-app"
                }
                2 => {
                    approved.contract = if app == example { mini.clone() } else { example.clone() };
                    "approved-for-the-other-real-app"
                }
                3 => {
                    approved.ph = keccak(b"other payload");
                    "approved-other-payload"
                }
                4 => {
                    approved.src = b"0xother".to_vec();
                    "approved-other-source-address"
                }
                5 => {
                    deliver.1 = format!("id-{h}-{step}-x").into_bytes();
                    "delivered-with-other-id"
                }
                6 => {
                    deliver.0 = b"chainZ".to_vec();
                    "delivered-with-other-chain"
                }
                7 => {
                    deliver.3.push(0);
                    "delivered-padded-payload"
                }
                _ => "conforming",
            };
            if dev != 0 {
                let pf = g.honest(&ws, &approve_data_hash(&g.env, &[approved.clone()]));
                g.approve(&[approved.clone()], &pf, "approve");
            }
            g.run.op(
                &format!("app.execute {} {} {} {} {}", app.tok(), hx(&deliver.0), hx(&deliver.1), hx(&deliver.2), hx(&deliver.3)),
                &format!("{aname}-{cls}"),
            );
            g.run.op("app.count", "q");
            g.q_msg(&approved);
            // delivered twice (also after a failed first delivery); and re-approval in between
            if g.rng.chance(1, 2) {
                if g.rng.chance(1, 3) && dev != 0 {
                    let pf = g.honest(&ws, &approve_data_hash(&g.env, &[approved.clone()]));
                    g.approve(&[approved.clone()], &pf, "re-approve");
                }
                g.run.op(
                    &format!("app.execute {} {} {} {} {}", app.tok(), hx(&deliver.0), hx(&deliver.1), hx(&deliver.2), hx(&deliver.3)),
                    &format!("{aname}-{cls}-again"),
                );
                g.run.op("app.count", "q");
                g.q_msg(&approved);
            }
            // directed (once per history): after a successful delivery of M1 —
            //  (a) a later batch [fresh M2, M1] (the executed message NOT in front) must not revive M1;
            //  (b) an outsider's own (failing) consumption attempt at the gateway, followed by a re-submission of the old
            //      approval, must not revive it either
            // directed (once per history): a PENDING approval is not replaced by a later one for the same id with other content —
            // the application acts on the first content only, and only once
            if step == 5 {
                let appx = if h % 2 == 0 { example.clone() } else { mini.clone() };
                let (p1, p2) = (b"first-content".to_vec(), b"second-content".to_vec());
                let idx = format!("pending-{h}").into_bytes();
                let m1 = Msg { chain: b"chain0".to_vec(), id: idx.clone(), src: src.clone(), contract: appx.clone(), ph: keccak(&p1) };
                let mut m2 = m1.clone();
                m2.ph = keccak(&p2);
                for (k, m) in [&m1, &m2].iter().enumerate() {
                    let pf = g.honest(&ws, &approve_data_hash(&g.env, &[(*m).clone()]));
                    g.approve(&[(*m).clone()], &pf, if k == 0 { "pending-approve-first-content" } else { "pending-approve-second-content" });
                }
                g.q_msg(&m1);
                g.q_msg(&m2);
                g.run.op(&format!("app.execute {} {} {} {} {}", appx.tok(), hx(&m2.chain), hx(&m2.id), hx(&m2.src), hx(&p2)), "pending-deliver-second-content");
                g.run.op("app.count", "q");
                g.run.op(&format!("app.execute {} {} {} {} {}", appx.tok(), hx(&m1.chain), hx(&m1.id), hx(&m1.src), hx(&p1)), "pending-deliver-first-content");
                g.run.op("app.count", "q");
                g.run.op(&format!("app.execute {} {} {} {} {}", appx.tok(), hx(&m2.chain), hx(&m2.id), hx(&m2.src), hx(&p2)), "pending-deliver-second-content-after-first");
                g.run.op("app.count", "q");
                g.q_msg(&m1);
            }
            if step == 3 {
                let app1 = mini.clone();
                let pl = b"directed-payload".to_vec();
                let m1 = Msg { chain: b"chain0".to_vec(), id: format!("directed-{h}").into_bytes(), src: src.clone(), contract: app1.clone(), ph: keccak(&pl) };
                let pf = g.honest(&ws, &approve_data_hash(&g.env, &[m1.clone()]));
                g.approve(&[m1.clone()], &pf, "directed-approve");
                let exec = format!("app.execute {} {} {} {} {}", app1.tok(), hx(&m1.chain), hx(&m1.id), hx(&m1.src), hx(&pl));
                g.run.op(&exec, "directed-first-delivery");
                g.run.op("app.count", "q");
                let m2 = Msg { chain: b"chain0".to_vec(), id: format!("directed-{h}-fresh").into_bytes(), src: src.clone(), contract: app1.clone(), ph: keccak(b"x") };
                let batch = vec![m2.clone(), m1.clone()];
                let pf = g.honest(&ws, &approve_data_hash(&g.env, &batch));
                g.approve(&batch, &pf, "directed-batch-fresh-then-executed");
                g.q_msg(&m1);
                g.run.op(&exec, "directed-delivery-after-batch");
                g.run.op("app.count", "q");
                let outsider = other_app.clone();
                g.run.op(
                    &format!("gw.validate_message {} {} {} {} {} {}", outsider.tok(), hx(&m1.chain), hx(&m1.id), hx(&m1.src), hex::encode(m1.ph), AuthSpec::exact(&[outsider.clone()]).tok()),
                    "directed-outsider-consumption-attempt",
                );
                g.q_msg(&m1);
                let pf = g.honest(&ws, &approve_data_hash(&g.env, &[m1.clone()]));
                g.approve(&[m1.clone()], &pf, "directed-re-approve-after-outsider");
                g.q_msg(&m1);
                g.run.op(&exec, "directed-delivery-after-outsider");
                g.run.op("app.count", "q");
            }
            // the conforming delivery after a deviating one (the approval must still be intact if it was not consumed)
            if dev >= 5 && dev <= 7 {
                g.run.op(
                    &format!("app.execute {} {} {} {} {}", app.tok(), hx(&chain), hx(&id), hx(&src), hx(&payload)),
                    &format!("{aname}-conforming-after-deviation"),
                );
                g.run.op("app.count", "q");
                g.q_msg(&approved);
            }
        }
    }
}
