#!/bin/sh
# Offline build of the framework: Lean library + driver, Rust harness against /repo's working tree.
set -e
cd "$(dirname "$0")"
export CARGO_NET_OFFLINE=true
mkdir -p runs evidence
(cd lean && lake build)
cp /repo/Cargo.lock harness/Cargo.lock 2>/dev/null || true
(cd harness && cargo build --offline)
echo setup-ok
